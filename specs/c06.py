"""
C06 / C07 / C14(wire) - the serdes module pydsdl/_serdes.py.

Bit layer abstraction (pyvc.bittheory): bitsval(d, off, k) = sum_{i<k} bit(d zero-extended, off+i) * 2**i with
bit p = bit (p mod 8) of byte (p div 8), i.e. the Specification's "least significant bit first, little-endian" reading of a
byte string as a bit string.  The reader contracts say *which bits* are returned (zeros beyond the data and beyond the
limit of a bounded sub-reader); the writer contracts say which bits a byte string produced by the writer holds.
"""
import z3
from pyvc.spec import contract, class_spec, inline_ok, loop_invariant
from pyvc.values import Int, Bool, Str, Opt, ObjOf, Bytes, ByteArray, MutObjOf
from pyvc.speclib import AND, OR, NOT, IMPLIES, IFF, ITE, EQ, IS_NONE, VAL, ISINST, AS, LEN, FORALL_IDX, smt
from pyvc import speclib
from pyvc.bittheory import (BITSVAL, BITAT, DLEN, LSB, POW2, H_SPLIT, H_LSB_SPLIT, H_LSB_STEP, H_BEYOND, H_POW2_ADD, H_POW2_MONO)
from . import common  # noqa
from .common import PRIMITIVE, VOID_T, SERIALIZABLE, COMPOSITE

SD = "pydsdl._serdes."
READER = SD + "_BitReader"
WRITER = SD + "_BitWriter"
P67 = ["C06", "C07", "C14"]
LEAN = ["Bits.lean"]
LEVEL = "proof"


# ------------------------------------------------------------------------------------------------ small helpers
def MAX0(x):
    return ITE(x > 0, x, 0)


def MIN(a, b):
    return ITE(a <= b, a, b)


def DIV(a, b):
    """floor division by a positive constant"""
    if smt():
        from pyvc.values import Int as _I

        return _I.unwrap(a) / b
    return a // b


def SAME_BYTES(a, b):
    """the same byte string (identity of content)"""
    if smt():
        return AND(a.arr == b.arr, a.length == b.length)
    return bytes(a) == bytes(b)


def SAME_OPT_INT(a, b):
    return EQ(a, b)


# ------------------------------------------------------------------------------------------------ _BitReader
@class_spec(READER)
class _ReaderSpec:
    fields = dict(_data=Bytes, _start_offset=Int, _bit_offset=Int, _bit_limit=Opt(Int))
    mutable = ["_bit_offset"]

    def invariant(self):
        # positions are never negative and the reader never moves backwards
        return {"offsets": AND(0 <= self._start_offset, self._start_offset <= self._bit_offset)}


def AVAIL(r):
    """Bits left before the limit of a bounded (sub-)reader; only meaningful when the reader has a limit."""
    return MAX0(VAL(r._bit_limit) - (r._bit_offset - r._start_offset))


def EFFECTIVE(r, n):
    """How many of the n requested bits are actually taken from the data: all of them for an unbounded reader,
    at most the bits left before start + limit for a bounded one (the rest read as zero)."""
    if smt():
        return ITE(IS_NONE(r._bit_limit), n, MIN(n, AVAIL(r)))
    return n if r._bit_limit is None else min(n, AVAIL(r))


def READER_FRAME(s):
    """only the position changes"""
    a, b = s.self, s.old.self
    return AND(SAME_BYTES(a._data, b._data), a._start_offset == b._start_offset, EQ(a._bit_limit, b._bit_limit))


@contract(READER + ".__init__", props=P67)
class _ReaderInit:
    params = dict(data=Bytes, bit_offset=Int, bit_limit=Opt(Int))
    instances = lambda: [{"data": Bytes}, {"data": ByteArray}]

    def pre(s):
        return {"offset-nonneg": s.bit_offset >= 0}

    def post(s):
        r = s.self
        return {"data": SAME_BYTES(r._data, s.data), "start": r._start_offset == s.bit_offset,
                "offset": r._bit_offset == s.bit_offset, "limit": EQ(r._bit_limit, s.bit_limit)}


@contract(READER + ".read_bits", props=P67)
class _ReadBits:
    params = dict(bit_length=Int)
    returns = Int
    modifies = ["_bit_offset"]

    def pre(s):
        return {"count-nonneg": s.bit_length >= 0}

    def decreases(s):
        return s.bit_length

    def post(s):
        o = s.old.self
        n = s.bit_length
        eff = EFFECTIVE(o, n)
        return {
            # the value of the bits actually available: zeros beyond the data and beyond start + limit
            "value": s.result == BITSVAL(o._data, o._bit_offset, eff, unfold=False),
            "value-range": AND(0 <= s.result, s.result < POW2(n)),
            # the offset always advances by n
            "advance": s.self._bit_offset == o._bit_offset + n,
            "frame": READER_FRAME(s),
            # proof hints (instances of Lean lemmas; evaluated as checks in the native reading)
            "hint": AND(H_SPLIT(o._data, o._bit_offset, 8 * DIV(eff, 8), eff % 8),
                        H_POW2_MONO(eff, n)),
        }


@loop_invariant(READER + ".read_bits", loop=0)
def _read_bits_slow(s):
    (acc,) = list(s.carried.values())
    r = s.self
    return {"acc-is-bitsval": acc == BITSVAL(r._data, r._bit_offset, s.i),
            "acc-range": AND(0 <= acc, acc < POW2(s.i))}


@contract(READER + ".align_to", props=P67)
class _ReaderAlign:
    params = dict(bit_alignment=Int)
    modifies = ["_bit_offset"]

    def post(s):
        o = s.old.self
        a = s.bit_alignment
        new = s.self._bit_offset
        return {
            "no-op-for-nonpositive": IMPLIES(a <= 0, new == o._bit_offset),
            # the least multiple of the alignment that is not below the old position
            "aligned": IMPLIES(a > 0, lambda: AND(new % a == 0, new >= o._bit_offset, new < o._bit_offset + a)),
            "frame": READER_FRAME(s),
        }


@contract(READER + ".bounded_subreader", props=P67)
class _SubReader:
    params = dict(bit_count=Int)
    returns = MutObjOf(READER)
    modifies = ["_bit_offset"]

    def post(s):
        o, r = s.old.self, s.result
        return {
            "sub-data": SAME_BYTES(r._data, o._data),
            "sub-start": AND(r._start_offset == o._bit_offset, r._bit_offset == o._bit_offset),
            "sub-limit": AND(NOT(IS_NONE(r._bit_limit)), lambda: VAL(r._bit_limit) == s.bit_count),
            "parent-advance": s.self._bit_offset == o._bit_offset + s.bit_count,
            "frame": READER_FRAME(s),
        }

    def pre(s):
        return {"count-nonneg": s.bit_count >= 0}


@contract(READER + ".remaining_bits", props=P67)
class _Remaining:
    returns = Int

    def post(s):
        r = s.self
        return {
            "bounded": IMPLIES(NOT(IS_NONE(r._bit_limit)), lambda: s.result == AVAIL(r)),
            "unbounded": IMPLIES(IS_NONE(r._bit_limit), lambda: s.result == MAX0(8 * DLEN(r._data) - r._bit_offset)),
        }


inline_ok(READER + ".bit_offset", WRITER + ".bit_offset")


# ------------------------------------------------------------------------------------------------ _BitWriter
def DIV(a, b):
    """floor division by a positive constant"""
    if smt():
        from pyvc.values import Int as _I

        return _I.unwrap(a) / b
    return a // b


def CEIL8(x):
    return DIV(x + 7, 8)


def TAIL_ZERO(buf, off):
    """every bit of the buffer at or beyond position `off` is zero"""
    return BITSVAL(buf, off, 8 * DLEN(buf) - off, unfold=False) == 0


def PREFIX_PRESERVED(new, old, upto):
    """every read that ends at or before bit `upto` gives the same value on both byte strings"""
    if smt():
        from pyvc import bittheory as bt

        p, k = z3.FreshConst(z3.IntSort(), "p"), z3.FreshConst(z3.IntSort(), "k")
        lhs = bt.bitsval_f(new.arr, new.length, p, k)
        return z3.ForAll([p, k], z3.Implies(z3.And(p >= 0, k >= 0, p + k <= upto),
                                            lhs == bt.bitsval_f(old.arr, old.length, p, k)), patterns=[lhs])
    from pyvc.bittheory import native_bit

    return all(native_bit(bytes(new), q) == native_bit(bytes(old), q) for q in range(upto))


@class_spec(WRITER)
class _WriterSpec:
    fields = dict(_buffer=ByteArray, _bit_offset=Int)
    mutable = ["_buffer", "_bit_offset"]

    def invariant(self):
        # WFw: the buffer holds exactly the bytes touched so far and nothing beyond the write position
        return {"offset-nonneg": self._bit_offset >= 0,
                "length": DLEN(self._buffer) == CEIL8(self._bit_offset),
                "tail-zero": TAIL_ZERO(self._buffer, self._bit_offset)}


@contract(WRITER + ".__init__", props=["C06", "C14"])
class _WriterInit:
    def post(s):
        return {"empty": AND(DLEN(s.self._buffer) == 0, s.self._bit_offset == 0)}


@contract(WRITER + ".write_bits", props=["C06", "C14"])
class _WriteBits:
    params = dict(value=Int, bit_length=Int)
    modifies = ["_buffer", "_bit_offset"]

    def pre(s):
        return {"count-nonneg": s.bit_length >= 0}

    def decreases(s):
        return s.bit_length

    def post(s):
        o, w = s.old.self, s.self
        n = s.bit_length
        fb8 = 8 * DIV(n, 8)
        return {
            # bits written so far ++ lsb(value, n): earlier bits unchanged, the n new bits are the low bits of value
            "prefix": PREFIX_PRESERVED(w._buffer, o._buffer, o._bit_offset),
            "written": BITSVAL(w._buffer, o._bit_offset, n, unfold=False) == LSB(s.value, n),
            "advance": w._bit_offset == o._bit_offset + n,
            "hint": AND(H_SPLIT(w._buffer, o._bit_offset, fb8, n % 8), H_LSB_SPLIT(s.value, fb8, n % 8)),
        }


@loop_invariant(WRITER + ".write_bits", loop=0)
def _write_bits_slow(s):
    w, o = s.self, s.old.self
    cur = o._bit_offset + s.i
    buf = w._buffer
    return {
        "length": DLEN(buf) == ITE(s.i > 0, CEIL8(cur), DLEN(o._buffer)),
        "prefix": PREFIX_PRESERVED(buf, o._buffer, o._bit_offset),
        "written": BITSVAL(buf, o._bit_offset, s.i, unfold=False) == LSB(s.value, s.i),
        "tail-zero": TAIL_ZERO(buf, cur),
        "offset-unchanged": w._bit_offset == o._bit_offset,
        "hint": AND(H_LSB_STEP(s.value, s.i), H_BEYOND(buf, cur, 8 * (DLEN(buf) + 1) - cur)),
    }


@contract(WRITER + ".align_to", props=["C06", "C14"])
class _WriterAlign:
    params = dict(bit_alignment=Int)
    modifies = ["_buffer", "_bit_offset"]

    def post(s):
        o, w = s.old.self, s.self
        a = s.bit_alignment
        new = w._bit_offset
        return {
            "no-op-for-nonpositive": IMPLIES(a <= 0, lambda: AND(new == o._bit_offset, SAME_BYTES(w._buffer, o._buffer))),
            "aligned": IMPLIES(a > 0, lambda: AND(new % a == 0, new >= o._bit_offset, new < o._bit_offset + a)),
            "prefix": PREFIX_PRESERVED(w._buffer, o._buffer, o._bit_offset),
            "zero-padding": BITSVAL(w._buffer, o._bit_offset, new - o._bit_offset, unfold=False) == 0,
        }


@contract(WRITER + ".finish", props=["C06", "C14"])
class _WriterFinish:
    returns = Bytes

    def post(s):
        w = s.self
        return {"content": SAME_BYTES(s.result, w._buffer),
                "whole-bytes": DLEN(s.result) == CEIL8(w._bit_offset),
                "padding-zero": TAIL_ZERO(s.result, w._bit_offset)}

# ------------------------------------------------------------------------------------------------ primitive codec
from pyvc.values import Kind, Obj, EnumV, RefSort
from pyvc.spec import REG
from . import c12  # noqa: contracts of inclusive_value_range (proved there for every width)
from . import c02  # noqa: class specs of the array / composite types, ghosts L(T), A(T) (read-only)
from .common import (BOOLEAN_T, SIGNED_T, UNSIGNED_T, BYTE_T, UTF8_T, FLOAT_T, CASTMODE, SATURATED, TRUNCATED,
                     cast_mode_ord)

# the value-range contracts are used at call sites here: their result is a ValueRange record
for _q in (SIGNED_T, UNSIGNED_T, FLOAT_T):
    REG.contracts["pydsdl." + _q.replace("pydsdl.", "") + ".inclusive_value_range"].returns = c12.ValueRangeK


class ConcreteType(Kind):
    """Finite instantiation: one concrete primitive / void type object (class, width, cast mode)."""

    def __init__(self, clsname, n, cast=SATURATED):
        self.clsname, self.n, self.cast = clsname, n, cast

    def build(self, ctx, mk):
        eng = ctx.engine
        cls = eng.repo.cls(self.clsname if self.clsname.startswith("pydsdl.") else "pydsdl." + self.clsname)
        ref = mk("!ref", RefSort)
        ctx.assume(eng.tag_fn(ref) == eng.class_id(cls))
        fields = {"_bit_length": self.n}
        if self.clsname != VOID_T:
            cm = eng.repo.cls("pydsdl." + CASTMODE.replace("pydsdl.", ""))
            name = eng.enum_members(cm)[self.cast]
            fields["_cast_mode"] = EnumV(cm, name, z3.IntVal(self.cast))
            fields["_standard_bit_length"] = self.n in (8, 16, 32, 64)
        return Obj(cls, True, ref, fields, ctx)

    def __repr__(self):
        return "%s%d%s" % (self.clsname.split(".")[-1].replace("Type", ""), self.n, "t" if self.cast == TRUNCATED else "")


def _prim_instances():
    out = [ConcreteType(BOOLEAN_T, 1)]
    out += [ConcreteType(UNSIGNED_T, n, c) for n in range(1, 65) for c in (SATURATED, TRUNCATED)]
    out += [ConcreteType(SIGNED_T, n) for n in range(2, 65)]
    out += [ConcreteType(BYTE_T, 8, TRUNCATED), ConcreteType(UTF8_T, 8, TRUNCATED)]
    out += [ConcreteType(VOID_T, n) for n in range(1, 65)]
    return out


def WIDTH(t):
    return t._bit_length


def WIDTH_OF(t):
    """bit_length of a primitive or void type (abstract object)"""
    if smt():
        return ITE(ISINST(t, "VoidType"), AS(t, VOID_T)._bit_length, AS(t, PRIMITIVE)._bit_length)
    return t.bit_length


def IS_FLOAT(t):
    return ISINST(t, "FloatType")


def CLAMP(v, lo, hi):
    return ITE(v < lo, lo, ITE(v > hi, hi, v))


def RAW(t, v):
    """The Specification's wire value of an integer-like primitive: two's complement of the saturated value, or the low
    bits of the value for the truncated cast mode; a boolean is one bit; void is zero bits set."""
    n = WIDTH(t)
    if smt():
        name = t.cls.name
        signed = t.cls.is_subclass_of(speclib.CTX.engine.class_by_name("SignedIntegerType"))
        if name == "BooleanType":
            return ITE(v != 0, 1, 0)
        if name == "VoidType":
            return 0
        if signed:
            return LSB(CLAMP(v, -(2 ** (n - 1)), 2 ** (n - 1) - 1), n)
        if t._cast_mode.term.eq(z3.IntVal(SATURATED)):
            return CLAMP(v, 0, 2 ** n - 1)
        return LSB(v, n)
    name = type(t).__name__
    if name == "BooleanType":
        return 1 if v else 0
    if name == "VoidType":
        return 0
    if name == "SignedIntegerType":
        return CLAMP(v, -(2 ** (n - 1)), 2 ** (n - 1) - 1) % 2 ** n
    if t.cast_mode.value == SATURATED:
        return CLAMP(v, 0, 2 ** n - 1)
    return v % 2 ** n


def IN_RANGE(t, v):
    n = WIDTH(t)
    if smt():
        name = t.cls.name
        signed = t.cls.is_subclass_of(speclib.CTX.engine.class_by_name("SignedIntegerType"))
    else:
        name = type(t).__name__
        signed = name == "SignedIntegerType"
    if name == "BooleanType":
        return OR(v == 0, v == 1)
    if name == "VoidType":
        return False
    if signed:
        return AND(-(2 ** (n - 1)) <= v, v <= 2 ** (n - 1) - 1)
    return AND(0 <= v, v <= 2 ** n - 1)


def DECODE(t, raw):
    """The value denoted by n wire bits: unsigned as is, signed as two's complement."""
    n = WIDTH(t)
    if smt():
        name = t.cls.name
        signed = t.cls.is_subclass_of(speclib.CTX.engine.class_by_name("SignedIntegerType"))
    else:
        name = type(t).__name__
        signed = name == "SignedIntegerType"
    if signed:
        return ITE(raw >= 2 ** (n - 1), raw - 2 ** n, raw)
    return raw


def IS_NUMERIC(v):
    if smt():
        return isinstance(v, (bool, int)) or (isinstance(v, z3.ExprRef) and (z3.is_int(v) or z3.is_bool(v)))
    return isinstance(v, (bool, int, float))


def NUM(v):
    if smt():
        from pyvc.values import Int as _I

        return _I.unwrap(v) if IS_NUMERIC(v) else z3.IntVal(0)
    return int(v) if isinstance(v, (bool, int)) else 0


def WRITER_ADVANCED(s, n):
    o, w = s.old.writer, s.writer
    return {"prefix": PREFIX_PRESERVED(w._buffer, o._buffer, o._bit_offset),
            "advance": w._bit_offset == o._bit_offset + n}


@contract(SD + "_serialize_primitive", props=["C06"])
class _SerPrim:
    params = dict(writer=MutObjOf(WRITER), schema=ObjOf(SERIALIZABLE), value=Int)
    modifies_params = {"writer": ["_buffer", "_bit_offset"]}
    instances = lambda: [{"schema": t, "value": k} for t in _prim_instances() for k in (Int, Str)]
    raises = {"ValueError": lambda s: AND(NOT(ISINST(s.schema, "VoidType")), NOT(IS_NUMERIC(s.value)))}

    def pre(s):
        return {"primitive-or-void": ISINST(s.schema, "PrimitiveType", "VoidType")}

    def post(s):
        t, o, w = s.schema, s.old.writer, s.writer
        n = WIDTH(t) if (not smt() or t.fields is not None) else WIDTH_OF(t)
        out = dict(WRITER_ADVANCED(s, n))
        if smt() and t.fields is None:
            return out  # call site with a symbolic type: only the offset / prefix facts (the wire clause needs the class)
        if (smt() and t.cls.name == "FloatType") or (not smt() and type(t).__name__ == "FloatType"):
            return out
        v = NUM(s.value)
        bits = BITSVAL(w._buffer, o._bit_offset, n, unfold=False)
        out["wire"] = bits == RAW(t, v)
        # what the deserializer returns for these bits is the value itself (in-range values)
        if not ((smt() and t.cls.name == "VoidType") or (not smt() and type(t).__name__ == "VoidType")):
            out["round-trip"] = IMPLIES(IN_RANGE(t, v), lambda: DECODE(t, bits) == v)
        return out


@contract(SD + "_deserialize_primitive", props=["C06", "C07"])
class _DesPrim:
    params = dict(reader=MutObjOf(READER), schema=ObjOf(SERIALIZABLE))
    modifies_params = {"reader": ["_bit_offset"]}
    instances = lambda: [{"schema": t} for t in _prim_instances()]

    def pre(s):
        return {"primitive-or-void": ISINST(s.schema, "PrimitiveType", "VoidType")}

    def post(s):
        t, o, r = s.schema, s.old.reader, s.reader
        n = WIDTH(t) if (not smt() or t.fields is not None) else WIDTH_OF(t)
        out = {"advance": r._bit_offset == o._bit_offset + n,
               "frame": AND(SAME_BYTES(r._data, o._data), r._start_offset == o._start_offset, EQ(r._bit_limit, o._bit_limit))}
        if smt() and t.fields is None:
            return out
        name = t.cls.name if smt() else type(t).__name__
        if name == "FloatType":
            return out
        bits = BITSVAL(o._data, o._bit_offset, EFFECTIVE(o, n), unfold=False)
        if name == "VoidType":
            out["value"] = IS_NONE(s.result)
        elif name == "BooleanType":
            out["value"] = EQ(s.result, bits != 0) if smt() else (s.result is (bits != 0))
        else:
            out["value"] = s.result == DECODE(t, bits)
            out["value-in-range"] = IN_RANGE(t, s.result)
        return out


# ------------------------------------------------------------------------------------------------ array / composite decoding
from pyvc.values import AnyValue
from .common import PADDING, FIELD, DELIMITED, SERVICE
from .c02 import ARRAY, FIXED, VARIABLE, STRUCT, UNION, FIELDS

P7 = ["C06", "C07", "C14"]


@class_spec(PADDING)
class _PaddingSpec:
    def invariant(self):
        # PaddingField.__init__ raises TypeParameterError unless the type is void
        return {"void-type": ISINST(self._data_type, "VoidType")}


def READER_UNCHANGED_BUT_POSITION(s):
    o, r = s.old.reader, s.reader
    return AND(SAME_BYTES(r._data, o._data), r._start_offset == o._start_offset, EQ(r._bit_limit, o._bit_limit))


def HEADER_VALUE(o, t):
    """the delimiter header read at the old position of the reader (32 bits, zero extended)"""
    return BITSVAL(o._data, o._bit_offset, EFFECTIVE(o, AS(t, DELIMITED)._delimiter_header_type._bit_length), unfold=False)


def REMAINING_AFTER(o, h):
    """remaining_bits of the reader after h more bits were consumed"""
    if smt():
        return ITE(IS_NONE(o._bit_limit), MAX0(8 * DLEN(o._data) - (o._bit_offset + h)),
                   MAX0(VAL(o._bit_limit) - (o._bit_offset + h - o._start_offset)))
    if o._bit_limit is None:
        return max(0, 8 * len(o._data) - (o._bit_offset + h))
    return max(0, o._bit_limit - (o._bit_offset + h - o._start_offset))


def DES_POST(s, t):
    """What every _deserialize_* function guarantees about the reader, by the class of the type."""
    o, r = s.old.reader, s.reader
    return {
        "frame": READER_UNCHANGED_BUT_POSITION(s),
        "forward": r._bit_offset >= o._bit_offset,
        "primitive-width": IMPLIES(ISINST(t, "PrimitiveType", "VoidType"),
                                   lambda: r._bit_offset == o._bit_offset + (AS(t, PRIMITIVE)._bit_length
                                                                             if not _is_void(t) else AS(t, VOID_T)._bit_length)),
        # C14 wire: a delimited object occupies header + 8 * header-value bits whatever the inner type is
        "delimited-framing": IMPLIES(ISINST(t, "DelimitedType"), lambda: AND(
            r._bit_offset == o._bit_offset + 32 + 8 * HEADER_VALUE(o, t),
            8 * HEADER_VALUE(o, t) <= REMAINING_AFTER(o, 32))),
    }


def _is_void(t):
    if smt():
        return False  # handled through the two class-specific accessors below
    return type(t).__name__ == "VoidType"


def DES_POST2(s, t):
    o, r = s.old.reader, s.reader
    return {
        "frame": READER_UNCHANGED_BUT_POSITION(s),
        "forward": r._bit_offset >= o._bit_offset,
        "primitive-width": IMPLIES(ISINST(t, "PrimitiveType", "VoidType"), lambda: r._bit_offset == o._bit_offset + WIDTH_OF(t)),
        "delimited-framing": IMPLIES(ISINST(t, "DelimitedType"), lambda: AND(
            r._bit_offset == o._bit_offset + 32 + 8 * HEADER_VALUE(o, t),
            8 * HEADER_VALUE(o, t) <= REMAINING_AFTER(o, 32))),
    }


def NESTED(t):
    """types whose decoding involves validation (anything but primitives and void)"""
    return NOT(ISINST(t, "PrimitiveType", "VoidType"))


DES_RAISES = {
    # SerDesError family: only from types that carry a length prefix / tag / delimiter header somewhere inside
    "SerDesError": lambda s: NESTED(s.schema if hasattr(s, "schema") else s.element_type if hasattr(s, "element_type") else s.field_type),
}


def _type_param(s):
    for n in ("schema", "element_type", "field_type"):
        if n in s.__dict__:
            return s.__dict__[n]
    raise AttributeError("no type parameter")


@contract(SD + "_deserialize_element", props=P7)
class _DesElement:
    params = dict(reader=MutObjOf(READER), element_type=ObjOf(SERIALIZABLE))
    returns = AnyValue
    modifies_params = {"reader": ["_bit_offset"]}
    raises_only_if = {"SerDesError": lambda s: NESTED(s.element_type), "ValueError": lambda s: NESTED(s.element_type),
                      "TypeError": lambda s: NESTED(s.element_type)}

    def pre(s):
        # model invariant: element / field types are never service types (ArrayType / CompositeType constructors)
        return {"serializable": NOT(ISINST(s.element_type, "ServiceType"))}

    def post(s):
        return DES_POST2(s, s.element_type)


@contract(SD + "_deserialize_field_value", props=P7)
class _DesField:
    params = dict(reader=MutObjOf(READER), field_type=ObjOf(SERIALIZABLE))
    returns = AnyValue
    modifies_params = {"reader": ["_bit_offset"]}
    raises_only_if = {"SerDesError": lambda s: NESTED(s.field_type), "ValueError": lambda s: NESTED(s.field_type),
                      "TypeError": lambda s: NESTED(s.field_type)}

    def post(s):
        return DES_POST2(s, s.field_type)


def PREFIX_READ(o, t):
    """the implicit length prefix read at the old position"""
    return BITSVAL(o._data, o._bit_offset, EFFECTIVE(o, AS(t, VARIABLE)._length_field_type._bit_length), unfold=False)


@contract(SD + "_deserialize_array", props=P7)
class _DesArray:
    params = dict(reader=MutObjOf(READER), schema=ObjOf(ARRAY))
    returns = AnyValue
    modifies_params = {"reader": ["_bit_offset"]}
    raises_only_if = {
        # rejected, not clamped: a prefix above the capacity; nested element types may reject as well
        "ArrayLengthError": lambda s: OR(AND(ISINST(s.schema, "VariableLengthArrayType"),
                                             lambda: PREFIX_READ(s.old.reader, s.schema) > s.schema._capacity),
                                         NESTED(s.schema._element_type)),
        "SerDesError": lambda s: NESTED(s.schema._element_type),
        "TypeError": lambda s: NESTED(s.schema._element_type),
        # undecodable UTF-8 (UnicodeDecodeError is a ValueError); "unknown array type" for a class that is neither
        "ValueError": lambda s: OR(NESTED(s.schema._element_type), ISINST(s.schema._element_type, "UTF8Type", "ByteType"),
                                   NOT(ISINST(s.schema, "FixedLengthArrayType", "VariableLengthArrayType"))),
    }

    raises_here = {
        "ArrayLengthError": lambda s: AND(ISINST(s.schema, "VariableLengthArrayType"),
                                          lambda: PREFIX_READ(s.old.reader, s.schema) > s.schema._capacity),
        "ValueError": lambda s: NOT(ISINST(s.schema, "FixedLengthArrayType", "VariableLengthArrayType")),
    }

    def post(s):
        d = DES_POST2(s, s.schema)
        d["length-not-clamped"] = IMPLIES(ISINST(s.schema, "VariableLengthArrayType"),
                                          lambda: PREFIX_READ(s.old.reader, s.schema) <= s.schema._capacity)
        return d


@loop_invariant(SD + "_deserialize_array", loop=0)
def _des_array_loop(s):
    o, r = s.old.reader, s.reader
    return {"frame": AND(SAME_BYTES(r._data, o._data), r._start_offset == o._start_offset, EQ(r._bit_limit, o._bit_limit)),
            "forward": r._bit_offset >= o._bit_offset}


@contract(SD + "_deserialize_composite", props=P7)
class _DesComposite:
    params = dict(reader=MutObjOf(READER), schema=ObjOf(COMPOSITE))
    returns = AnyValue
    modifies_params = {"reader": ["_bit_offset"]}
    # TypeError: raised here only for a service type; a *field* of service type would propagate one too - impossible
    # under the model invariant `fields-serializable` of the composite constructors (C02), which is not connected to the
    # copying `fields` accessor here (documented gap: nested TypeError is allowed by this contract)
    raises_only_if = {"SerDesError": lambda s: True, "ValueError": lambda s: True, "TypeError": lambda s: True}
    # rejected, not clamped (exceptions raised by this function itself, as opposed to nested objects)
    raises_here = {
        "DelimiterHeaderError": lambda s: AND(ISINST(s.schema, "DelimitedType"),
                                              lambda: 8 * HEADER_VALUE(s.old.reader, s.schema) > REMAINING_AFTER(s.old.reader, 32)),
        "UnionTagError": lambda s: AND(ISINST(s.schema, "UnionType"), lambda: TAG_READ(s.old.reader, s.schema) >= LEN(FIELDS(s.schema))),
        "ValueError": lambda s: NOT(ISINST(s.schema, "DelimitedType", "UnionType", "StructureType", "ServiceType")),
        "TypeError": lambda s: ISINST(s.schema, "ServiceType"),
    }

    def post(s):
        d = DES_POST2(s, s.schema)
        d["not-a-service"] = NOT(ISINST(s.schema, "ServiceType"))
        d["tag-not-clamped"] = IMPLIES(ISINST(s.schema, "UnionType"),
                                       lambda: TAG_READ(s.old.reader, s.schema) < LEN(FIELDS(s.schema)))
        return d


def TAG_READ(o, t):
    return BITSVAL(o._data, o._bit_offset, EFFECTIVE(o, AS(t, UNION)._tag_field_type._bit_length), unfold=False)


@loop_invariant(SD + "_deserialize_composite", loop=0)
def _des_struct_loop(s):
    o, r = s.old.reader, s.reader
    return {"frame": AND(SAME_BYTES(r._data, o._data), r._start_offset == o._start_offset, EQ(r._bit_limit, o._bit_limit)),
            "forward": r._bit_offset >= o._bit_offset}


def FIELDS_SERIALIZABLE(seq):
    """no field of a composite is of a service type (established by the CompositeType constructors)"""
    if smt():
        from pyvc.loops import mk_forall

        i = z3.FreshConst(z3.IntSort(), "fi")
        body = NOT(ISINST(seq.at(speclib.CTX, i)._data_type, "ServiceType"))
        return mk_forall([i], z3.Implies(z3.And(0 <= i, i < seq.length), body), patterns=[z3.Select(seq.arr, i)])
    return all(type(f.data_type).__name__ != "ServiceType" for f in seq)


def TOP_HEADER(data):
    return BITSVAL(data, 0, 32, unfold=False)


@contract(SD + "deserialize", props=["C06", "C07", "C14"])
class _Deserialize:
    params = dict(schema=ObjOf(COMPOSITE), data=Bytes, with_delimiter_header=Bool)
    instances = lambda: [{"data": Bytes}, {"data": ByteArray}]
    returns = AnyValue
    raises_only_if = {"SerDesError": lambda s: True, "ValueError": lambda s: True, "TypeError": lambda s: True}
    raises_here = {
        "TypeError": lambda s: ISINST(s.schema, "ServiceType"),
        "ValueError": lambda s: AND(s.with_delimiter_header, NOT(ISINST(s.schema, "DelimitedType"))),
        # the header must not promise more than the data that follows it
        "DelimiterHeaderError": lambda s: AND(s.with_delimiter_header, ISINST(s.schema, "DelimitedType"),
                                              lambda: 8 * TOP_HEADER(s.data) > MAX0(8 * DLEN(s.data) - 32)),
    }

    def post(s):
        return {
            "not-a-service": NOT(ISINST(s.schema, "ServiceType")),
            "header-flag-only-for-delimited": IMPLIES(s.with_delimiter_header, ISINST(s.schema, "DelimitedType")),
            "header-not-clamped": IMPLIES(AND(s.with_delimiter_header, ISINST(s.schema, "DelimitedType")),
                                          lambda: 8 * TOP_HEADER(s.data) <= MAX0(8 * DLEN(s.data) - 32)),
        }


# ------------------------------------------------------------------------------------------------ native harness
from pyvc.native import NativeSuite

NATIVE = NativeSuite()
NATIVE_BUDGET = {"quick": 300, "thorough": 5000}


def _gen_reader(rng, i):
    n = rng.choice([0, 0, 1, 2, 3, 5, 9])
    data = [rng.choice([0, 255, rng.randrange(256)]) for _ in range(n)]
    start = rng.choice([0, 0, 1, 3, 7, 8, 9, 16, 8 * n, 8 * n + 3])
    off = start + rng.choice([0, 0, 1, 2, 7, 8, 13])
    limit = rng.choice([None, None, 0, 1, 5, 8, 9, 16, 17, 40, 100])
    return {"data": data, "start": start, "off": off, "limit": limit,
            "n": rng.choice([0, 1, 2, 3, 7, 8, 9, 12, 15, 16, 17, 24, 31, 32, 33, 64]),
            "a": rng.choice([-1, 0, 1, 2, 3, 8, 16, 64])}


def _mk_reader(d):
    from pydsdl import _serdes

    r = _serdes._BitReader(bytes(d["data"]), d["start"], d["limit"])
    r._bit_offset = d["off"]
    return r


def _build_read_bits(d):
    r = _mk_reader(d)
    return (lambda: r.read_bits(d["n"])), {"self": r, "bit_length": d["n"]}


def _build_align(d):
    r = _mk_reader(d)
    return (lambda: r.align_to(d["a"])), {"self": r, "bit_alignment": d["a"]}


def _build_sub(d):
    r = _mk_reader(d)
    return (lambda: r.bounded_subreader(d["n"])), {"self": r, "bit_count": d["n"]}


def _build_remaining(d):
    r = _mk_reader(d)
    return (lambda: r.remaining_bits), {"self": r}


def _build_reader_init(d):
    from pydsdl import _serdes

    data = bytes(d["data"]) if d["n"] % 2 else bytearray(d["data"])
    return (lambda: _serdes._BitReader(data, d["start"], d["limit"])), {"data": data, "bit_offset": d["start"],
                                                                        "bit_limit": d["limit"]}


NATIVE.add(READER + ".read_bits", _gen_reader, _build_read_bits)
NATIVE.add(READER + ".align_to", _gen_reader, _build_align)
NATIVE.add(READER + ".bounded_subreader", _gen_reader, _build_sub)
NATIVE.add(READER + ".remaining_bits", _gen_reader, _build_remaining)
NATIVE.add(READER + ".__init__", _gen_reader, _build_reader_init)



def _gen_writer(rng, i):
    ops = [(rng.choice([0, 1, 5, 255, 256, 65535, -1, -2, 2 ** 40 + 12345, rng.randrange(-2 ** 20, 2 ** 70)]),
            rng.choice([0, 1, 2, 3, 7, 8, 9, 12, 16, 17, 24, 33, 64])) for _ in range(rng.choice([0, 1, 2, 3]))]
    return {"ops": ops, "value": rng.choice([0, 1, 2, 170, 255, 256, 43690, -1, -129, 2 ** 64 - 1, rng.randrange(-2 ** 66, 2 ** 66)]),
            "n": rng.choice([0, 1, 2, 3, 7, 8, 9, 12, 15, 16, 17, 24, 31, 32, 33, 64]),
            "a": rng.choice([-1, 0, 1, 2, 3, 8, 16, 64])}


def _mk_writer(d):
    from pydsdl import _serdes

    w = _serdes._BitWriter()
    for v, n in d["ops"]:
        w.write_bits(v, n)
    return w


def _build_write_bits(d):
    w = _mk_writer(d)
    return (lambda: w.write_bits(d["value"], d["n"])), {"self": w, "value": d["value"], "bit_length": d["n"]}


def _build_walign(d):
    w = _mk_writer(d)
    return (lambda: w.align_to(d["a"])), {"self": w, "bit_alignment": d["a"]}


def _build_finish(d):
    w = _mk_writer(d)
    return (lambda: w.finish()), {"self": w}


def _writer_inv_native(s):
    w = s.self
    return (w._bit_offset >= 0 and len(w._buffer) == (w._bit_offset + 7) // 8
            and BITSVAL(w._buffer, w._bit_offset, 8 * len(w._buffer) - w._bit_offset) == 0)


_WriteBits.native_extra_post = staticmethod(_writer_inv_native)
_WriterAlign.native_extra_post = staticmethod(_writer_inv_native)
NATIVE.add(WRITER + ".write_bits", _gen_writer, _build_write_bits)
NATIVE.add(WRITER + ".align_to", _gen_writer, _build_walign)
NATIVE.add(WRITER + ".finish", _gen_writer, _build_finish)



def _gen_prim(rng, i):
    k = rng.choice(["bool", "uint", "uint", "int", "int", "void", "byte", "utf8"])
    n = {"bool": 1, "byte": 8, "utf8": 8}.get(k) or rng.choice([1, 2, 3, 7, 8, 9, 15, 16, 17, 31, 32, 33, 63, 64])
    if k == "int":
        n = max(n, 2)
    cast = rng.choice(["s", "t"])
    base = rng.choice([0, 1, -1, 2, 2 ** n - 1, 2 ** n, 2 ** n + 1, 2 ** (n - 1), 2 ** (n - 1) - 1, -(2 ** (n - 1)),
                       -(2 ** (n - 1)) - 1, -(2 ** n), rng.randrange(-2 ** 66, 2 ** 66), rng.randrange(-300, 300)])
    value = rng.choice([base, base, base, base, True, False, "x", None])
    d = _gen_writer(rng, i)
    d.update(_gen_reader(rng, i))
    d.update({"type": {"k": k, "n": n, "cast": cast}, "pvalue": value})
    return d


def _mk_prim_type(t):
    if t["k"] == "int":
        t = dict(t, cast="s")
    if t["k"] == "utf8":
        from pydsdl import _serializable as S

        return S.UTF8Type()
    return c12._mk_type(t)


def _build_ser_prim(d):
    from pydsdl import _serdes

    w = _mk_writer(d)
    t = _mk_prim_type(d["type"])
    return (lambda: _serdes._serialize_primitive(w, t, d["pvalue"])), {"writer": w, "schema": t, "value": d["pvalue"]}


def _build_des_prim(d):
    from pydsdl import _serdes

    r = _mk_reader(d)
    t = _mk_prim_type(d["type"])
    return (lambda: _serdes._deserialize_primitive(r, t)), {"reader": r, "schema": t}


NATIVE.add(SD + "_serialize_primitive", _gen_prim, _build_ser_prim)
NATIVE.add(SD + "_deserialize_primitive", _gen_prim, _build_des_prim)

NOT_COVERED = []
EXPLANATION = ""
ASSUMPTIONS = []
