"""
C10 (directory arguments) - deductive contracts for the two functions that specs/c10.py had as bounded native stand-ins only:

 * `_namespace._ensure_no_namespace_name_collisions_or_nested_root_namespaces`: root namespace directories are rejected
   with an InvalidDefinitionError exactly when one lies inside another or - if name collisions are disallowed - two
   distinct ones have the same name ignoring case (statement of C10), for directory lists of any length.
 * `_dsdl.normalize_paths_argument_to_list`: the None / single path / single string forms.

Relative to the ASSUMED contracts of pathlib (pyvc/libmodel.py "pathlib relations"): `resolve()` is a function of the path,
`samefile` / `is_relative_to` are reflexive relations of two paths, `relative_to` raises ValueError iff not relative.
"Distinct" = not the same file; "lies inside" = is relative to (for distinct directories).

The code finds an offending pair with `next(filter(check_each, zip(product(D, D), repeat([0]))), None)`; the engine models
this idiom as: no pair of D x D satisfies the predicate, or an arbitrary satisfying pair is returned (which one is first
depends on the iteration order of the set; specs/c10.py JUSTIFIED explains why only the error subclass depends on it).
"""
import z3
from pyvc.spec import contract
from pyvc.values import Bool, Str, SeqOf, PathK, PathV, PathSort
from pyvc.speclib import AND, OR, NOT, IMPLIES, IFF, EQ, EXISTS_IDX, FORALL_IDX, LEN, AT, smt
from pyvc import speclib

P = ["C10"]
NSM = "pydsdl._namespace."


def _eng():
    return speclib.CTX.engine


def RESOLVED(p):
    if smt():
        return PathV(_eng().uf("path!resolve", PathSort, PathSort)(p.term))
    return p.resolve()


def SAME_FILE(a, b):
    if smt():
        return _eng().uf("path!samefile", PathSort, PathSort, z3.BoolSort())(a.term, b.term)
    return a.samefile(b)


def INSIDE(a, b):
    """a lies inside b (or is b): a is relative to b"""
    if smt():
        return _eng().uf("path!is-relative-to", PathSort, PathSort, z3.BoolSort())(a.term, b.term)
    try:
        a.relative_to(b)
        return True
    except ValueError:
        return False


def SAME_NAME_IGNORING_CASE(a, b):
    if smt():
        lib = _eng().lib
        na, nb = lib.path_attr(speclib.CTX, a, "name"), lib.path_attr(speclib.CTX, b, "name")
        return _eng().str_lower(speclib.CTX, na) == _eng().str_lower(speclib.CTX, nb)
    return a.name.lower() == b.name.lower()


def SOME_PAIR(dirs, pred):
    """some pair of (resolved) directories of the list satisfies pred"""
    return EXISTS_IDX(dirs, lambda i, a: EXISTS_IDX(dirs, lambda j, b: pred(RESOLVED(a), RESOLVED(b)), name="j"))


def NAME_CLASH(a, b):
    """two distinct directories have the same name ignoring case"""
    return AND(NOT(SAME_FILE(a, b)), SAME_NAME_IGNORING_CASE(a, b))


def NESTED(a, b):
    """one directory lies inside another (distinct) one"""
    return AND(NOT(SAME_FILE(a, b)), INSIDE(a, b))


@contract(NSM + "_ensure_no_namespace_name_collisions_or_nested_root_namespaces", props=P)
class _RootDirsProved:
    params = dict(directories=SeqOf(PathK), allow_name_collisions=Bool)
    raises = {
        "RootNamespaceNameCollisionError": lambda s: AND(NOT(s.allow_name_collisions), SOME_PAIR(s.directories, NAME_CLASH)),
        "NestedRootNamespaceError": lambda s: SOME_PAIR(s.directories, NESTED),
    }

    def post(s):
        return {"no-directory-inside-another": NOT(SOME_PAIR(s.directories, NESTED)),
                "no-name-clash-unless-allowed": OR(s.allow_name_collisions, NOT(SOME_PAIR(s.directories, NAME_CLASH)))}


# ------------------------------------------------------------------------------------------------ normalize_paths_argument_to_list
def PATH_OF(x):
    if smt():
        if isinstance(x, PathV):
            return x
        return PathV(_eng().uf("path!of-str", z3.StringSort(), PathSort)(Str.unwrap(x)))
    from pathlib import Path

    return Path(x)


@contract("pydsdl._dsdl.normalize_paths_argument_to_list", props=P)
class _NormalizeScalar:
    """The scalar forms: None -> [], a single path / string -> the one-element list with that path.  The iterable form
    (order-preserving de-duplication through a stateful filter over elements of mixed type) stays a bounded native
    stand-in in specs/c10.py (`_NormalizePaths` native reading, cross-check)."""
    instances = [{"namespaces_or_namespace": None}, {"namespaces_or_namespace": PathK}, {"namespaces_or_namespace": Str}]
    returns = SeqOf(PathK)

    def post(s):
        a = s.namespaces_or_namespace
        r = s.result
        if smt():
            items = r.items if hasattr(r, "items") else None
            if items is None:
                return {"scalar-form": False}
            if a is None:
                return {"none-gives-the-empty-list": len(items) == 0}
            return {"single-item-list": AND(len(items) == 1, lambda: items[0].term == PATH_OF(a).term)}
        from pathlib import Path

        if a is None:
            return {"none-gives-the-empty-list": list(r) == []}
        if isinstance(a, (str, Path)):
            return {"single-item-list": list(r) == [Path(a)]}
        return {}
