"""
The namespace reader (pydsdl._namespace_reader._read_definitions / read_definitions and the nested visitor class
_Callback) under contract - shared by C10 (bookkeeping), C19 (provenance of the next level's targets), C17 / C13 (path
attachment, print handler binding, only pydsdl Errors leave) and termination.  Stand-alone: it neither imports specs.c03
nor specs.c09 (both declare the builder's class specification); interface contracts are registered only where the
importing property has not registered its own.
"""
import os
import z3
from pyvc.spec import contract, class_spec, inline_ok, loop_invariant, REG
from pyvc.values import Int, Bool, Str, Opt, SeqOf, ObjOf, MapOf, RecorderK, Const, Obj, SymSet, SymSeq, SymMap, OptV, RefSort
from pyvc.speclib import AND, OR, NOT, IMPLIES, IFF, ITE, EQ, IS_NONE, VAL, ISINST, LEN, AT, FORALL_IDX, EXISTS_IDX, smt
from pyvc import speclib, frontend
from pyvc import ext_reader as XR
from pyvc.ext_reader import ObjSetOf

R = "pydsdl._namespace_reader."
RDF = "pydsdl._dsdl.ReadableDSDLFile"
DSDLFILE = "pydsdl._dsdl.DSDLFile"
VISITOR = "pydsdl._dsdl.DefinitionVisitor"
COMPOSITE = "pydsdl._serializable._composite.CompositeType"
ERROR = "pydsdl._error.Error"
P_ALL = ["C10", "C13", "C17", "C19", "C10R"]  # C10R: the stand-alone runner of this module (specs/c10r.py)

MODEL_PATH = os.path.join(os.path.dirname(os.path.abspath(__file__)), "drivers", "reader_model.py")
frontend.register_extra_source("pydsdl._spec_reader_model", MODEL_PATH)
_ONLY = [R + "_read_definitions", R + "read_definitions"]
XR.register_model(REG, RDF + ".read", "pydsdl._spec_reader_model.read", _ONLY)
XR.register_model(REG, DSDLFILE + ".composite_type", "pydsdl._spec_reader_model.composite_type", _ONLY)
XR.register_model(REG, "pydsdl._dsdl.file_sort", "pydsdl._spec_reader_model.file_sort", _ONLY)
for _c in (RDF, DSDLFILE):
    XR.register_model(REG, _c + ".file_path", "pydsdl._spec_reader_model.file_path", _ONLY)

for _q in (RDF, DSDLFILE, VISITOR, ERROR):
    if _q not in REG.classes:
        if _q == ERROR:
            @class_spec(_q)
            class _ErrorSpec:
                fields = dict(_path=Opt(Str), _line=Opt(Int))
                mutable = ["_path", "_line"]
        else:
            class_spec(_q)(type("_Spec", (), {"fields": {}}))


def FP(d):
    """The file path of a definition: a fixed attribute of the definition object."""
    if smt():
        return speclib.CTX.engine.uf("ghost!file_path", RefSort, z3.StringSort())(d.ref if isinstance(d, Obj) else d)
    return d.file_path


inline_ok(ERROR + ".set_error_location_if_unknown", why="two conditional assignments; verified on its own under C17/C13")


# ------------------------------------------------------------------------------------------------ vocabulary
def MEM(S, x):
    """x in S (identity of objects)"""
    if smt():
        return z3.Select(S.term, x.ref if isinstance(x, Obj) else x)
    return any(x is y for y in S)


def HEAP():
    return XR.heap(speclib.CTX)


def CT(d, h=None):
    """composite_type of a definition in the (current) ghost heap: Optional composite"""
    if smt():
        return XR.cached_type_in(speclib.CTX, h if h is not None else HEAP(), d)
    return d.composite_type


def _exc_path(exc):
    """(known, value) of the path an escaping pydsdl Error carries"""
    p = speclib.CTX.engine.lib.exc_attr(speclib.CTX, exc, "_path")
    return _known(p)


def _known(p):
    if p is None:
        return False, z3.StringVal("")
    if isinstance(p, str):
        return p != "", z3.StringVal(p)
    if isinstance(p, z3.ExprRef):
        return p != z3.StringVal(""), p
    return AND(NOT(IS_NONE(p)), NOT(EQ(VAL(p), ""))), Str.unwrap(VAL(p))


def _all_paths_truthy():
    if smt():
        r = z3.FreshConst(RefSort, "r")
        f = speclib.CTX.engine.uf("ghost!file_path", RefSort, z3.StringSort())
        return z3.ForAll([r], f(r) != z3.StringVal(""), patterns=[f(r)])
    return True


def path_rule(s):
    """C17 / C13: a pydsdl Error raised by `read` leaves as it is (same object, same class) with a known path - the one it
    carried when it left `read` if that was known (innermost wins: an error of a dependency keeps the dependency's path),
    else the path of the definition whose read raised.  Anything else that `read` raises is wrapped into an InternalError
    carrying the path of that definition.  (Errors of the recursive call: only `path known` is restated.)"""
    from pyvc.values import ExcVal, ExtClass

    exc = s.exc
    f = exc.fields
    known, val = _exc_path(exc)
    if "__read_target__" in f:
        k0, v0 = _known(f["__path_when_raised__"])
        return AND(known, val == ITE(k0, v0, FP(f["__read_target__"])))
    if "culprit" in exc.kwargs:
        culprit = exc.kwargs["culprit"]
        foreign = isinstance(culprit, ExcVal) and isinstance(culprit.cls, ExtClass) and "__read_target__" in culprit.fields
        if not foreign or exc.clsname != "InternalError":
            return False  # a pydsdl Error must not be converted into an internal error
        return AND(known, val == FP(culprit.fields["__read_target__"]))
    return known


# ------------------------------------------------------------------------------------------------ set / map / heap predicates
def _x():
    return z3.FreshConst(RefSort, "x")


def DISJOINT(A, B):
    x = _x()
    return z3.ForAll([x], z3.Not(z3.And(z3.Select(A.term, x), z3.Select(B.term, x))),
                     patterns=[z3.Select(A.term, x), z3.Select(B.term, x)])


def SUBSET(A, B):
    x = _x()
    return z3.ForAll([x], z3.Implies(z3.Select(A.term, x), z3.Select(B.term, x)), patterns=[z3.Select(A.term, x)])


def SUBSET_OF_UNION(A, A2, B, B2):
    """A u A2 <= B u B2"""
    x = _x()
    return z3.ForAll([x], z3.Implies(z3.Or(z3.Select(A.term, x), z3.Select(A2.term, x)),
                                     z3.Or(z3.Select(B.term, x), z3.Select(B2.term, x))),
                     patterns=[z3.Select(A.term, x), z3.Select(A2.term, x)])


def SAME_SET(A, B):
    x = _x()
    return z3.ForAll([x], z3.Select(A.term, x) == z3.Select(B.term, x), patterns=[z3.Select(A.term, x), z3.Select(B.term, x)])


def EMPTY(A):
    if isinstance(A, SymSet) and A.elem_sort != RefSort:
        return True if XR.L._is_empty_set(A.term) else z3.BoolVal(False)
    x = _x()
    return z3.ForAll([x], z3.Not(z3.Select(A.term, x)), patterns=[z3.Select(A.term, x)])


def POOL_GROWS(P0, P):
    """entries are never replaced or dropped: one object per path"""
    p = z3.FreshConst(z3.StringSort(), "p")
    return z3.ForAll([p], z3.Implies(z3.Select(P0.has, p), z3.And(z3.Select(P.has, p), z3.Select(P.val, p) == z3.Select(P0.val, p))),
                     patterns=[z3.Select(P0.has, p), z3.Select(P.has, p)])


def POOL_KEYED_BY_PATH(P):
    """every pooled definition is stored under its own file path"""
    p = z3.FreshConst(z3.StringSort(), "p")
    return z3.ForAll([p], z3.Implies(z3.Select(P.has, p), FP(z3.Select(P.val, p)) == p), patterns=[z3.Select(P.has, p)])


def RESOLVED(x):
    """ghost provenance: the definition was handed to on_definition by resolve_versioned_data_type"""
    return speclib.CTX.engine.uf("ghost!resolved", RefSort, z3.BoolSort())(x.ref if isinstance(x, Obj) else x)


def IS_TARGET(targets, x):
    j = z3.FreshConst(z3.IntSort(), "jt")
    return z3.Exists([j], z3.And(0 <= j, j < targets.length, z3.Select(targets.arr, j) == x))


def NEW_POOL_ENTRIES_ARE_TARGETS_OR_RESOLVED(P0, P, targets):
    """C19, value level: whatever entered the pool (= was read as a target at this or a deeper level) is one of the given
    targets or was handed to on_definition"""
    p = z3.FreshConst(z3.StringSort(), "p")
    v = z3.Select(P.val, p)
    return z3.ForAll([p], z3.Implies(z3.And(z3.Select(P.has, p), z3.Not(z3.Select(P0.has, p))),
                                     z3.Or(IS_TARGET(targets, v), RESOLVED(v))), patterns=[z3.Select(P.has, p)])


def POOLED(P, t):
    """the object working for the path of definition t"""
    return Obj(speclib.CTX.engine.repo.cls(RDF), False, z3.Select(P.val, FP(t)), None, speclib.CTX)


def DONE(P, D, T, level, t, h=None):
    """target t has been processed: its path is pooled, the pooled definition has its composite, and the composite is
    recorded - in `direct` at level 0 (promotion included), somewhere at deeper levels"""
    ct = CT(POOLED(P, t), h)
    c = ct.val.ref
    return z3.And(z3.Select(P.has, FP(t)), z3.Not(ct.is_none),
                  z3.If(level == 0, z3.Select(D.term, c), z3.Or(z3.Select(D.term, c), z3.Select(T.term, c))))


def MISSING(lookup, P):
    """|{ paths of lookup definitions } \\ keys(file_pool)|: how many lookup definitions have not been pooled (read) yet"""
    f = speclib.CTX.engine.uf("ghost!missing", lookup.arr.sort(), z3.IntSort(), P.has.sort(), z3.IntSort())
    return f(lookup.arr, lookup.length, P.has)


def LOOKUP_MEMBER(lookup, x):
    j = z3.FreshConst(z3.IntSort(), "jl")
    return z3.Exists([j], z3.And(0 <= j, j < lookup.length, z3.Select(lookup.arr, j) == x))


def _missing_lemma(lookup, P_small, P_big):
    """ASSUMED LEMMA (finite sets; Lean: Pydsdl/Reader.lean `missing_lt`): if the pool only grew and some lookup definition's
    path was pooled in between, strictly fewer lookup paths are missing; and the count is never negative."""
    p = z3.FreshConst(z3.StringSort(), "p")
    j = z3.FreshConst(z3.IntSort(), "jw")
    path = FP(z3.Select(lookup.arr, j))
    grew = z3.ForAll([p], z3.Implies(z3.Select(P_small.has, p), z3.Select(P_big.has, p)), patterns=[z3.Select(P_small.has, p)])
    witness = z3.Exists([j], z3.And(0 <= j, j < lookup.length, z3.Not(z3.Select(P_small.has, path)), z3.Select(P_big.has, path)))
    return z3.And(MISSING(lookup, P_big) >= 0, MISSING(lookup, P_small) >= 0,
                  z3.Implies(grew, MISSING(lookup, P_big) <= MISSING(lookup, P_small)),
                  z3.Implies(z3.And(grew, witness), MISSING(lookup, P_big) < MISSING(lookup, P_small)))


def _measure(s):
    """Termination: (top level first, then) the number of lookup definitions not yet pooled."""
    ctx = speclib.CTX
    e = getattr(ctx, "reader_entry", None)
    if e is not None and not e.P0.has.eq(s.file_pool.has):
        ctx.assume(_missing_lemma(s.lookup_definitions, e.P0, s.file_pool))
    else:
        ctx.assume(MISSING(s.lookup_definitions, s.file_pool) >= 0)
    return (z3.If(s.level == 0, z3.IntVal(1), z3.IntVal(0)), MISSING(s.lookup_definitions, s.file_pool))


def ENTRY():
    return speclib.CTX.reader_entry


def bookkeeping(D, T, P, D0, T0, P0, h0, level, targets, upto):
    i = z3.FreshConst(z3.IntSort(), "j")
    t = z3.Select(targets.arr, i)
    return {
        "direct-transitive-disjoint": DISJOINT(D, T),
        "direct-only-grows": SUBSET(D0, D),
        "nothing-recorded-is-lost": SUBSET_OF_UNION(D0, T0, D, T),
        "deeper-levels-leave-direct-alone": z3.Implies(level >= 1, SAME_SET(D, D0)),
        "one-object-per-path": POOL_GROWS(P0, P),
        "pool-keyed-by-path": POOL_KEYED_BY_PATH(P),
        "caches-only-filled": XR.heap_grows(h0, HEAP()),
        "processed-targets-recorded": z3.ForAll([i], z3.Implies(z3.And(0 <= i, i < upto), DONE(P, D, T, level, t)),
                                                patterns=[z3.Select(targets.arr, i)]),
        "pool-entries-are-targets-or-resolved": NEW_POOL_ENTRIES_ARE_TARGETS_OR_RESOLVED(P0, P, targets),
    }


# ------------------------------------------------------------------------------------------------ _read_definitions
@contract(R + "_read_definitions", props=P_ALL)
class _ReadDefinitionsRec:
    params = dict(target_definitions=SeqOf(ObjOf(RDF)), lookup_definitions=SeqOf(ObjOf(RDF)),
                  allow_unregulated_fixed_port_id=Bool, strict=Bool, direct=ObjSetOf(COMPOSITE), transitive=ObjSetOf(COMPOSITE),
                  file_pool=MapOf(Str, ObjOf(RDF)), level=Int)
    instances = lambda: [{"print_output_handler": None}, {"print_output_handler": RecorderK("print_output_handler")}]
    mutates = ["direct", "transitive", "file_pool"]
    havoc = lambda s: [(s.direct, "direct"), (s.transitive, "transitive"), (s.file_pool, "file_pool")]
    havoc_heap = True
    # only pydsdl Errors leave (every other class is a `noraise#...` obligation), with the path rule
    raises_if = {"Error": path_rule}
    decreases = staticmethod(_measure)

    def pre(s):
        ctx = speclib.CTX
        s.__dict__["heap0"] = HEAP()
        if not hasattr(ctx, "reader_entry"):  # the first precondition evaluated on a path is the function's own entry
            ctx.reader_entry = type("Entry", (), dict(D0=s.old_direct, T0=s.old_transitive, P0=s.old_file_pool, h0=HEAP()))
        i = z3.FreshConst(z3.IntSort(), "i")
        return {"level": s.level >= 0,
                # a pathlib.Path is always truthy; paths are modelled as non-empty texts
                "paths-are-truthy": _all_paths_truthy(),
                "direct-transitive-disjoint": DISJOINT(s.direct, s.transitive),
                "pool-keyed-by-path": POOL_KEYED_BY_PATH(s.file_pool),
                # C19: below the top level only definitions handed to on_definition are read
                "deeper-targets-were-resolved": z3.Implies(s.level >= 1, z3.ForAll([i], z3.Implies(
                    z3.And(0 <= i, i < s.target_definitions.length), RESOLVED(z3.Select(s.target_definitions.arr, i))),
                    patterns=[z3.Select(s.target_definitions.arr, i)])),
                # termination: below the top level the targets are lookup definitions that have not been pooled yet
                "deeper-targets-are-unread-lookup-definitions": z3.Implies(s.level >= 1, z3.ForAll([i], z3.Implies(
                    z3.And(0 <= i, i < s.target_definitions.length),
                    z3.And(LOOKUP_MEMBER(s.lookup_definitions, z3.Select(s.target_definitions.arr, i)),
                           z3.Not(z3.Select(s.file_pool.has, FP(z3.Select(s.target_definitions.arr, i)))))),
                    patterns=[z3.Select(s.target_definitions.arr, i)]))}

    def post(s):
        return bookkeeping(s.direct, s.transitive, s.file_pool, s.old_direct, s.old_transitive, s.old_file_pool, s.heap0,
                           s.level, s.target_definitions, s.target_definitions.length)


_PARAM_COLLECTIONS = ("direct", "transitive", "file_pool")  # keyword parameters: part of the function's interface


def _pending_sets(s):
    """the function's own set(s) of definitions (whatever the code calls them): filled by the visitor, drained per target"""
    return [v for k, v in s.carried.items() if k not in _PARAM_COLLECTIONS and isinstance(v, SymSet)]


@loop_invariant(R + "_read_definitions", loop=0)
def _inv_targets(s):
    e = ENTRY()
    out = bookkeeping(s.direct, s.transitive, s.file_pool, e.D0, e.T0, e.P0, e.h0, s.level, s.target_definitions, s.i)
    out["nothing-pending-between-targets"] = AND(*[EMPTY(v) for v in _pending_sets(s)])
    return out


def _carried_kind(name, value):
    if name in _PARAM_COLLECTIONS:
        return {"direct": ObjSetOf(COMPOSITE), "transitive": ObjSetOf(COMPOSITE), "file_pool": MapOf(Str, ObjOf(RDF))}[name]
    if isinstance(value, SymSet) and (XR.L._is_empty_set(value.term) or getattr(value, "clsname", None) == RDF):
        return ObjSetOf(RDF)  # a local set of definitions (allocated empty by the function)
    return None


_inv_targets.kinds_by_value = _carried_kind
_inv_targets.in_place = True
_inv_targets.havoc_ghost_heap = True


# ------------------------------------------------------------------------------------------------ read_definitions
def _known_path_only(s):
    return _exc_path(s.exc)[0]


def IN_LIST(seq, x):
    k = z3.FreshConst(z3.IntSort(), "k")
    return z3.Exists([k], z3.And(0 <= k, k < seq.length, z3.Select(seq.arr, k) == x))


@contract(R + "read_definitions", props=P_ALL)
class _ReadDefinitionsTop:
    """C10: `direct` and `transitive` are disjoint duplicate-free lists (file_sort order: C10 contract of file_sort); every
    requested target has been read and its composite is in `direct`."""
    params = dict(target_definitions=SeqOf(ObjOf(RDF)), lookup_definitions=SeqOf(ObjOf(RDF)),
                  allow_unregulated_fixed_port_id=Bool, strict=Bool)
    instances = lambda: [{"print_output_handler": None}, {"print_output_handler": RecorderK("print_output_handler")}]
    raises_if = {"Error": _known_path_only}

    def pre(s):
        return {"paths-are-truthy": _all_paths_truthy()}

    def post(s):
        d, t = s.result.direct, s.result.transitive
        i, j = z3.FreshConst(z3.IntSort(), "i"), z3.FreshConst(z3.IntSort(), "j")
        tg = s.target_definitions
        w = z3.FreshConst(RefSort, "w")
        wd = Obj(speclib.CTX.engine.repo.cls(RDF), False, w, None, speclib.CTX)
        ct = CT(wd)
        return {
            "direct-transitive-disjoint": z3.ForAll([i, j], z3.Implies(
                z3.And(0 <= i, i < d.length, 0 <= j, j < t.length), z3.Select(d.arr, i) != z3.Select(t.arr, j)),
                patterns=[z3.MultiPattern(z3.Select(d.arr, i), z3.Select(t.arr, j))]),
            "direct-without-duplicates": z3.ForAll([i, j], z3.Implies(
                z3.And(0 <= i, i < j, j < d.length), z3.Select(d.arr, i) != z3.Select(d.arr, j)),
                patterns=[z3.MultiPattern(z3.Select(d.arr, i), z3.Select(d.arr, j))]),
            "transitive-without-duplicates": z3.ForAll([i, j], z3.Implies(
                z3.And(0 <= i, i < j, j < t.length), z3.Select(t.arr, i) != z3.Select(t.arr, j)),
                patterns=[z3.MultiPattern(z3.Select(t.arr, i), z3.Select(t.arr, j))]),
            "every-target-is-read-and-direct": z3.ForAll([i], z3.Implies(z3.And(0 <= i, i < tg.length), z3.Exists([w], z3.And(
                FP(w) == FP(z3.Select(tg.arr, i)), z3.Not(ct.is_none), IN_LIST(d, ct.val.ref)))),
                patterns=[z3.Select(tg.arr, i)]),
        }


LEVEL = "proof"
LEAN = ["Reader.lean"]  # missing_le / missing_lt: the finite-set facts behind `_missing_lemma` (termination measure)
NOT_COVERED = [
    "the behaviour of ReadableDSDLFile.read itself (DSDLDefinition.read: C09; DataTypeBuilder.resolve_versioned_data_type calling "
    "on_definition before it reads a dependency: C09) - here an ASSUMED model (specs/drivers/reader_model.py)",
    "that the result lists are in file_sort order: C10's contract of file_sort (proved for lists) applied to an arbitrary "
    "duplicate-free enumeration of the set",
    "set membership of composites / definitions is object identity (CompositeType / DSDLDefinition define == and hash by "
    "value: C18 / C09; two distinct pooled definitions with equal name and version are rejected later by C11's checks)",
    "@print output delivered by read(): only that the handler handed to read() reports under the target's path (one symbolic "
    "delivery per read); how often read() calls it is read()'s business (C17 on_directive)",
    "state after an exception: nothing is claimed about direct / transitive / file_pool when an Error leaves",
]
EXPLANATION = ("The real bodies of _read_definitions (recursive, loop invariant over the target list), its nested visitor class "
               "_Callback (inlined closure-capturing class) and read_definitions are executed symbolically: sets of objects and "
               "the path dictionary are parameters mutated in place, the one mutable attribute of definition objects "
               "(composite_type) lives in a ghost heap, read() is an assumed model written as code.")
ASSUMPTIONS = [
    "model of ReadableDSDLFile.read (reader_model.read): calls on_definition(referrer, dep) on the given visitors for a finite "
    "set of definitions taken from the given lookup list (ghost provenance `resolved`), then raises anything or returns the "
    "composite of the definition, which is cached; caches of other definitions may be filled, none is cleared; a composite "
    "that was not cached before the call is a new object (not a member of any existing set)",
    "model of DSDLFile.composite_type (the cached composite, None before), DSDLFile.file_path (fixed per object, a truthy Path "
    "modelled as a non-empty text), file_sort on a set (duplicate-free enumeration of the members)",
    "finite-set lemma behind the termination measure: lean/Pydsdl/Reader.lean (missing_le, missing_lt), instantiated by hand "
    "in `_missing_lemma`",
    "functools.partial, set.add/remove/clear, dict.setdefault, `in`, len(set) > 0 iff non-empty (library model)",
]
