"""
Link from C10 / C13 / C17 / C19 to the contracts of the namespace reader (specs/c10_reader.py, runner id C10R).

The reader contracts are verified in their own process: specs/c10_reader.py models the interfaces it needs itself and
cannot share a process with specs/c09.py / specs/c03.py / specs/expr.py (they declare class specifications of the same
classes with different field kinds).  `reader_contracts` is an EXTRA_CHECK: it runs `pyvc.cli C10R` on the same tree,
caches the result by the hash of everything it depends on, and reports obligation counts and violations; an undecided
or broken run makes the calling check undecided (exception -> engine limit), never a pass.
"""
import glob
import hashlib
import json
import os
import re
import subprocess
import sys

ROOT = os.path.dirname(os.path.dirname(os.path.abspath(__file__)))


def _key(tier):
    from pyvc import frontend

    h = hashlib.sha256(tier.encode())
    files = [os.path.join(frontend.REPO_ROOT, "pydsdl", f) for f in ("_namespace_reader.py", "_dsdl.py", "_error.py")]
    files += sorted(glob.glob(os.path.join(ROOT, "pyvc", "*.py")))
    files += [os.path.join(ROOT, "specs", f) for f in ("c10_reader.py", "c10r.py", "common.py", "drivers/reader_model.py")]
    files += [os.path.join(ROOT, "ledger", "C10R.json"), os.path.join(ROOT, "known_findings.txt")]
    for f in files:
        h.update(f.encode())
        if os.path.exists(f):
            with open(f, "rb") as fh:
                h.update(fh.read())
    return h.hexdigest()[:24]


def reader_contracts(eng, tier, seed):
    os.makedirs(os.path.join(ROOT, ".cache"), exist_ok=True)
    cache = os.path.join(ROOT, ".cache", "c10r-%s.json" % _key(tier))
    if os.path.exists(cache):
        out = json.load(open(cache))
        out["cached"] = True
    else:
        env = dict(os.environ)
        env.pop("PYVC_WRITE_LEDGER", None)
        dump = os.path.join(ROOT, ".cache", "c10r-results-%d.json" % os.getpid())
        env["PYVC_DUMP_RESULTS"] = dump
        p = subprocess.run([sys.executable, "-m", "pyvc.cli", "C10R", "--tier", tier], cwd=ROOT, env=env,
                           stdout=subprocess.PIPE, stderr=subprocess.STDOUT, text=True, timeout=3000)
        lines = [ln for ln in p.stdout.splitlines() if not ln.startswith("WARNING")]
        ev = json.load(open(os.path.join(ROOT, "evidence", "C10R.json")))
        cov = ev["coverage"]
        out = {"check": "contracts of _namespace_reader._read_definitions / read_definitions / _Callback (runner C10R, own process)",
               "exit": p.returncode, "reader_obligations": cov["obligations"], "reader_discharged": cov["discharged"],
               "functions": [f["function"] for f in cov["functions_under_contract"]],
               "obligations_by_kind": cov["obligations_by_kind"], "assumed": ev.get("assumptions", [])[-12:],
               "summary": lines[-1] if lines else "",
               "violations": [{"name": "reader:" + m.group(1), "detail": ln[:300]}
                              for ln in lines for m in [re.search(r"obligation=(\S+)", ln)] if ln.startswith("VIOLATION") and m],
               "other_lines": [ln[:300] for ln in lines if ln.startswith(("UNDECIDED", "ENGINE-LIMIT", "BROKEN"))][:10]}
        # the reader's obligations by name (instances / paths of one name folded together): counted and ledgered by the caller
        by_name = {}
        for r in json.load(open(dump)):
            e = by_name.setdefault(r["name"], {"name": "reader:" + r["name"], "ok": True, "function": r["function"], "detail": ""})
            if not r["ok"]:
                e["ok"] = False
                e["detail"] = "status %s in the C10R run" % r["status"]
        os.remove(dump)
        out["obligations"] = sorted(by_name.values(), key=lambda e: e["name"])
        if p.returncode in (0, 1):
            json.dump(out, open(cache, "w"))
    if out["exit"] not in (0, 1):
        raise RuntimeError("the reader contracts (C10R) are undecided / broken: %s %s" % (out["summary"], out["other_lines"][:2]))
    return out
