"""
C19 - Definitions outside the dependency closure cannot influence the result.

A modular EFFECT contract (pyvc/effects.py): for every function of the namespace-reading modules the declared provenances
on which it may *evaluate* a definition (EVAL: `.read()`, `.text`, `.composite_type`, `open(path)`) are compared with what
its body does; effects of callees are taken from the callee's declared contract.  Provenances:

  SELF      the receiver of a DSDLDefinition method                 TARGET    element of a target list
  RESOLVED  element of a lookup list selected by a predicate that constrains both its full name and its version, in any
            spelling (filter + lambda, comprehension with `if`, `if` in a loop, next(generator)); only in
            DataTypeBuilder.resolve_versioned_data_type (that this selection is exactly "the definition the referrer
            names" is proved under C09); a selection on the name only, or without predicate, stays ANY
  ANY       element of a lookup list                                RESULT    composite types produced by reading
  OWN       the definition a builder works for                      ARG       provenance-polymorphic parameter

The contract allows EVAL on SELF / TARGET / RESOLVED only; never on ANY.  `DSDLDefinition.__init__` and the functions that
construct the lookup lists have no EVAL effect at all; the C11 cross-definition checks are applied to
`definitions.direct` and `definitions.transitive + definitions.direct` only.
"""
import ast
from pyvc.effects import (EffectContract as E, check, SELF, OWN, TARGET, RESOLVED, ANY, RESULT, ARG)

M, R, B, D, S = ("pydsdl._namespace", "pydsdl._namespace_reader", "pydsdl._data_type_builder",
                 "pydsdl._dsdl_definition", "pydsdl._dsdl")
MODULES = [M, R, B, D, S]

CLASS_SELF_TAG = {"DSDLDefinition": SELF}
CLASS_FIELDS = {"DataTypeBuilder": {"_definition": OWN, "_lookup_definitions": ANY, "_print_output_handler": ANY},
                "PathInferenceError": {"valid_dsdl_roots": ANY}}

# local names that hold classes of other modules (A4) or user callbacks (A3) and may receive tagged values
CALLABLE_PARAMS = {B + ".DataTypeBuilder._make_composite": ("ty",),
                   R + "._read_definitions": ("print_output_handler",)}

READ = E(params={"lookup_definitions": ANY, "print_output_handler": ANY}, evals={SELF}, internal={RESOLVED},
         eval_params=["self"], returns=RESULT, self_tag=SELF,
         why="evaluates the receiver; everything else it evaluates is resolved by reference from the lookup list")


def _c11_call_sites(fa):
    """`_complete_read_function`: the port-ID check is applied to `<r>.direct`, the version check to
    `<r>.transitive + <r>.direct`, where <r> is the value returned by read_definitions - and to nothing else."""
    node = fa.node
    result_vars = set()
    for n in ast.walk(node):
        if isinstance(n, ast.Assign) and isinstance(n.value, ast.Call):
            f = n.value.func
            name = f.id if isinstance(f, ast.Name) else getattr(f, "attr", None)
            if name == "read_definitions":
                for t in n.targets:
                    if isinstance(t, ast.Name):
                        result_vars.add(t.id)
    # the result variable must not be re-assigned from anything else
    for n in ast.walk(node):
        if isinstance(n, (ast.Assign, ast.AugAssign, ast.AnnAssign)):
            targets = n.targets if isinstance(n, ast.Assign) else [n.target]
            for t in targets:
                if isinstance(t, ast.Name) and t.id in result_vars:
                    v = n.value
                    f = getattr(v, "func", None)
                    nm = f.id if isinstance(f, ast.Name) else getattr(f, "attr", None)
                    if nm != "read_definitions":
                        result_vars = set()

    def is_attr(e, attr):
        return isinstance(e, ast.Attribute) and e.attr == attr and isinstance(e.value, ast.Name) and e.value.id in result_vars

    def calls(name):
        return [n for n in ast.walk(node) if isinstance(n, ast.Call) and (
            (isinstance(n.func, ast.Name) and n.func.id == name) or (isinstance(n.func, ast.Attribute) and n.func.attr == name))]

    pid = calls("_ensure_no_fixed_port_id_collisions")
    ver = calls("_ensure_minor_version_compatibility")
    ok_pid = len(pid) == 1 and len(pid[0].args) == 1 and not pid[0].keywords and is_attr(pid[0].args[0], "direct")
    ok_ver = False
    if len(ver) == 1 and len(ver[0].args) == 1 and not ver[0].keywords:
        a = ver[0].args[0]
        if isinstance(a, ast.BinOp) and isinstance(a.op, ast.Add):
            ok_ver = (is_attr(a.left, "transitive") and is_attr(a.right, "direct")) or \
                     (is_attr(a.left, "direct") and is_attr(a.right, "transitive"))
    rets = [n for n in ast.walk(node) if isinstance(n, ast.Return)]
    ok_ret = bool(rets) and all(isinstance(r.value, ast.Name) and r.value.id in result_vars for r in rets)
    return [
        ("port-id-check-on-direct-results", ok_pid, "" if ok_pid else
         "_ensure_no_fixed_port_id_collisions must be called exactly once, on <read_definitions result>.direct"),
        ("version-check-on-all-results", ok_ver, "" if ok_ver else
         "_ensure_minor_version_compatibility must be called exactly once, on <result>.transitive + <result>.direct"),
        ("returns-read-result", ok_ret, "" if ok_ret else "must return the value of read_definitions unchanged"),
    ]


CONTRACTS = {
    # ---- public API
    M + ".read_namespace": E(params={"root_namespace_directory": TARGET, "lookup_directories": ANY,
                                     "print_output_handler": ANY},
                             evals={TARGET}, internal={RESOLVED}, returns=RESULT),
    M + ".read_files": E(params={"dsdl_files": TARGET, "root_namespace_directories_or_names": ANY, "lookup_directories": ANY,
                                 "print_output_handler": ANY},
                         evals={TARGET}, internal={RESOLVED}, returns=RESULT),
    M + "._complete_read_function": E(params={"target_dsdl_definitions": TARGET, "lookup_directories_path_list": ANY,
                                              "print_output_handler": ANY},
                                      evals={TARGET}, internal={RESOLVED}, eval_params=["target_dsdl_definitions"],
                                      returns=RESULT, custom=_c11_call_sites),
    # ---- construction of definition lists: no EVAL effect; the provenance of the result is that of the paths given
    M + "._construct_lookup_directories_path_list": E(params={"root_namespace_directories": ANY,
                                                             "lookup_directories_path_list": ANY}, returns=ANY),
    M + "._construct_dsdl_definitions_from_files": E(params={"dsdl_files": ARG, "valid_roots": ANY},
                                                     returns="param:dsdl_files"),
    M + "._construct_dsdl_definitions_from_namespaces": E(params={"root_namespace_paths": ARG},
                                                          returns="param:root_namespace_paths"),
    M + "._ensure_no_namespace_name_collisions_or_nested_root_namespaces": E(params={"directories": ANY}),
    # ---- C11 checks: take results only
    M + "._ensure_no_fixed_port_id_collisions": E(params={"types": RESULT}),
    M + "._ensure_minor_version_compatibility": E(params={"types": RESULT}),
    M + "._ensure_minor_version_compatibility_pairwise": E(params={"a": RESULT, "b": RESULT}),
    # ---- reader
    R + "._read_definitions": E(params={"target_definitions": TARGET, "lookup_definitions": ANY, "direct": RESULT,
                                        "transitive": RESULT, "file_pool": TARGET, "print_output_handler": ANY},
                                evals={TARGET}, internal={RESOLVED}, eval_params=["target_definitions"]),
    R + ".read_definitions": E(params={"target_definitions": TARGET, "lookup_definitions": ANY, "print_output_handler": ANY},
                               evals={TARGET}, internal={RESOLVED}, eval_params=["target_definitions"], returns=RESULT),
    R + ".DSDLDefinitions.__init__": E(params={"direct": RESULT, "transitive": RESULT}, returns=RESULT, assumed="dataclass"),
    # ---- builder
    B + ".DataTypeBuilder.__init__": E(params={"definition": OWN, "lookup_definitions": ANY, "print_output_handler": ANY}),
    B + ".DataTypeBuilder.resolve_versioned_data_type": E(evals={RESOLVED}, internal={RESOLVED}, returns=RESULT,
                                                          filter_selects=RESOLVED),
    B + ".DataTypeBuilder.finalize": E(returns=RESULT),
    B + ".DataTypeBuilder._make_composite": E(params={"source_file_path": ANY}, returns=RESULT),
    # ---- definitions
    D + ".DSDLDefinition.__init__": E(params={"file_path": ARG, "root_namespace_path": ANY}, returns="param:file_path"),
    D + ".DSDLDefinition.from_first_in": E(params={"dsdl_path": ARG, "valid_dsdl_roots": ANY}, returns="param:dsdl_path"),
    D + ".DSDLDefinition._infer_path_to_root_from_first_found": E(params={"dsdl_path": ARG, "valid_dsdl_roots": ANY},
                                                                  returns=ANY),
    D + ".DSDLDefinition.read": READ,
    D + ".DSDLDefinition.text": E(evals={SELF}, self_tag=SELF),
    D + ".DSDLDefinition.composite_type": E(evals={SELF}, returns=RESULT, self_tag=SELF),
    D + ".DSDLDefinition.file_path": E(returns=SELF),
    D + ".DSDLDefinition.root_namespace_path": E(returns=SELF),
    D + ".PathInferenceError.__init__": E(params={"dsdl_path": ANY, "valid_dsdl_roots": ANY}),
    D + ".FileNameFormatError.__init__": E(params={"path": ANY}),
    # ---- interfaces and helpers of _dsdl.py
    S + ".ReadableDSDLFile.read": READ,
    S + ".DefinitionVisitor.on_definition": E(params={"target_dsdl_file": ANY, "dependency_dsdl_file": RESOLVED}),
    S + ".file_sort": E(params={"file_list": ARG}, returns="param:file_list"),
    S + ".get_definition_ordering_rank": E(params={"d": ANY}),
    S + ".normalize_paths_argument_to_list": E(params={"namespaces_or_namespace": ARG},
                                               returns="param:namespaces_or_namespace"),
    # ---- assumed: outside the analysed modules
    "pydsdl._parser.parse": E(params={"text": None, "statement_stream_processor": None, "strict": None},
                              internal={RESOLVED},
                              assumed="the parser calls back into the DataTypeBuilder it is given (whose own effects are "
                                      "declared above: resolve_versioned_data_type evaluates RESOLVED definitions) and "
                                      "evaluates no definition itself"),
}
# `None` provenance declarations mean "carries no definition"
for _c in CONTRACTS.values():
    _c.params = {k: v for k, v in _c.params.items() if v is not None}


def effect_check(eng, tier, seed):
    out = check(eng.repo, MODULES, CONTRACTS, CLASS_FIELDS, CLASS_SELF_TAG, callable_params=CALLABLE_PARAMS)
    out["assumed_contracts"] = {q: c.assumed for q, c in CONTRACTS.items() if c.assumed}
    return out


def closure_insensitivity(eng, tier, seed):
    """Bounded differential run of the real read_namespace / read_files (never counted as an obligation): random small
    namespaces with a lookup root; every lookup definition outside the dependency closure of the targets is replaced by
    garbage, by a rule violation, by a failing assertion and by a port-ID / version collision with another lookup
    definition; the outcome (types or error) must not change."""
    import os
    import random
    import shutil
    import tempfile
    from pathlib import Path
    import pydsdl

    rng = random.Random(seed)
    runs = 40 if tier == "quick" else 400
    base = Path(tempfile.mkdtemp(prefix="c09-c19-"))
    violations = []
    compared = 0
    garbage = ["%%% not dsdl at all \x00", "uint8 a\nuint8 a\n@sealed\n", "@assert false\n@sealed\n",
               "@print 1/0\n@sealed\n", "lib.Nope.9.9 x\n@sealed\n", "uint8 x\n"]

    def outcome(fn):
        try:
            r = fn()
            if isinstance(r, tuple):
                return ("ok", [repr(t) for t in r[0]], [repr(t) for t in r[1]])
            return ("ok", [repr(t) for t in r])
        except pydsdl.FrontendError as ex:
            return ("error", type(ex).__name__, str(ex))

    try:
        for k in range(runs):
            root = base / ("r%d" % k)
            ns, lib = root / "ns", root / "lib"
            os.makedirs(ns / "sub")
            os.makedirs(lib / "deep")
            lib_types = [("lib.A", lib / "A.1.0.dsdl"), ("lib.B", lib / "B.1.0.dsdl"), ("lib.deep.C", lib / "deep" / "C.1.0.dsdl"),
                         ("lib.D", lib / "7001.D.1.0.dsdl"), ("lib.E", lib / "E.1.1.dsdl")]
            refs = {}
            for name, path in lib_types:
                deps = [n for n, _ in lib_types if n != name and rng.random() < 0.25]
                refs[name] = deps
            # break cycles: only refer to later entries
            order = [n for n, _ in lib_types]
            for name in order:
                refs[name] = [d for d in refs[name] if order.index(d) > order.index(name)]
            for name, path in lib_types:
                path.write_text("".join("%s.1.%d f%d\n" % (d, 1 if d == "lib.E" else 0, i) for i, d in enumerate(refs[name]))
                                + "@sealed\n")
            targets = []
            for i, (tn, tp) in enumerate([("ns.T", ns / "T.1.0.dsdl"), ("ns.sub.U", ns / "sub" / "U.1.0.dsdl")]):
                deps = [n for n, _ in lib_types if rng.random() < 0.3]
                refs[tn] = deps
                tp.write_text("".join("%s.1.%d f%d\n" % (d, 1 if d == "lib.E" else 0, j) for j, d in enumerate(deps)) + "@sealed\n")
                targets.append(tp)
            closure = set()
            todo = list(refs["ns.T"]) + list(refs["ns.sub.U"])
            while todo:
                n = todo.pop()
                if n not in closure:
                    closure.add(n)
                    todo.extend(refs[n])
            use_files = rng.random() < 0.3
            if use_files:
                run = lambda: pydsdl.read_files([targets[0]], [ns], [lib], allow_unregulated_fixed_port_id=True)
                # for read_files only the first target is requested: the other target is outside the closure as well
                closure_f = set()
                todo = list(refs["ns.T"])
                while todo:
                    n = todo.pop()
                    if n not in closure_f:
                        closure_f.add(n)
                        todo.extend(refs[n])
                outside = [p for n, p in lib_types if n not in closure_f] + [targets[1]]
            else:
                run = lambda: pydsdl.read_namespace(ns, [lib], allow_unregulated_fixed_port_id=True)
                outside = [p for n, p in lib_types if n not in closure]
            before = outcome(run)
            for p in outside:
                p.write_text(rng.choice(garbage))
            if outside and rng.random() < 0.5:
                # a definition that collides in version / port-ID with another lookup definition
                (lib / "7001.Z.1.0.dsdl").write_text("@sealed\n")
                (lib / "deep" / "Y.1.0.dsdl").write_text("uint8 x\n@sealed\n")
                (lib / "deep" / "Y.1.1.dsdl").write_text("@extent 800\n")
            after = outcome(run)
            compared += 1
            if before != after:
                violations.append({"name": "_namespace.read_namespace/native#closure-insensitivity",
                                   "detail": "outcome changed after replacing definitions outside the closure",
                                   "concrete": {"function": "read_files" if use_files else "read_namespace", "refs": refs,
                                                "replaced": [str(p.relative_to(root)) for p in outside],
                                                "before": before, "after": after}})
                break
            shutil.rmtree(root, ignore_errors=True)
    finally:
        shutil.rmtree(base, ignore_errors=True)
    return {"check": "closure-insensitivity (bounded, not counted)", "runs": compared,
            "bound": "%d random two-root namespaces (2 targets, 5 lookup definitions), seed %d" % (runs, seed),
            "violations": violations}


from .reader_link import reader_contracts  # noqa: E402  contracts of the namespace reader, proved in their own process (C10R)

EXTRA_CHECKS = [effect_check, closure_insensitivity]
EXTRA_CHECKS = EXTRA_CHECKS + [reader_contracts]
LEVEL = "proof"
NOT_COVERED = [
    "that a malformed file *name* in a lookup directory is the only thing reported from listing (file-name grammar: C15)",
    "read_files root inference (DSDLDefinition._infer_path_to_root_from_first_found): only its EVAL-freedom is covered",
    "the parser's side of the callback protocol (assumed contract of _parser.parse)",
]
EXPLANATION = ("Static, modular effect analysis over the real ASTs: a sound over-approximation of the flows of definition "
               "objects under assumptions A1-A5 of pyvc/effects.py; each (function, effect kind) pair is a named "
               "obligation; a bounded differential run of the real read_namespace stands beside it (not counted).")
ASSUMPTIONS = [
    "A1 no reflection / monkey patching / global state in the analysed modules (reflection builtins are checked absent)",
    "A2 name based method resolution: a call x.m() is judged against every analysed method named m",
    "A3 callables received as parameters (print_output_handler) and exception objects do not evaluate definitions",
    "A4 code outside the five analysed modules evaluates definitions only as declared (assumed contract of _parser.parse)",
    "A5 members named read/text/composite_type/_text/_cached_type and the path members are the DSDLFile members",
    "RESOLVED is what DataTypeBuilder.resolve_versioned_data_type's filter selects; that this is exactly the referenced "
    "definition is the C09 contract (ledger/C09.json)",
]


# effect obligations (AST, complete for what they state): no argument-keyed cache decorator, no module-level state - see
# specs/common.py (the outcome of reading a text depends on the text and its dependencies, not on earlier reads)
from .common import no_hidden_state_check as _no_hidden_state_check  # noqa: E402
EXTRA_CHECKS = list(globals().get("EXTRA_CHECKS", [])) + [_no_hidden_state_check(
    ["pydsdl._namespace", "pydsdl._namespace_reader", "pydsdl._data_type_builder", "pydsdl._dsdl_definition"], "the reader and the resolver")]
