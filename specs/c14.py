"""C14 - delimited (appendable) types evolve without breaking containers or the wire: layout half (lemmas over the C02
contracts, specs/c14_layout.py) and, when present, the wire half (contracts on _serdes.py, specs/c14_wire.py)."""
from .c14_layout import *  # noqa
from .c14_layout import LEMMAS, LEAN  # noqa

try:
    from .c14_wire import *  # noqa
except ImportError:
    pass
