"""C14 - delimited (appendable) types evolve without breaking containers or the wire: layout half (lemmas over the C02
contracts, specs/c14_layout.py) and, when present, the wire half (contracts on _serdes.py, specs/c14_wire.py)."""
from . import c14_layout as _layout
from .c14_layout import *  # noqa
from .c14_layout import LEMMAS, LEAN  # noqa

try:
    from . import c14_wire as _wire
    from .c14_wire import *  # noqa  (NATIVE, NATIVE_BUDGET, EXTRA_CHECKS, LEVEL of the wire half)
except ImportError:
    _wire = None

if _wire is not None:
    # module attributes that both halves define are combined, not overridden
    LEAN = list(dict.fromkeys(list(getattr(_layout, "LEAN", [])) + list(_wire.LEAN)))
    NOT_COVERED = list(getattr(_layout, "NOT_COVERED", [])) + [
        x for x in _wire.NOT_COVERED if not x.startswith("layout half")]
    ASSUMPTIONS = list(getattr(_layout, "ASSUMPTIONS", [])) + list(_wire.ASSUMPTIONS)
    EXPLANATION = (getattr(_layout, "EXPLANATION", "") + "  Wire half: " + _wire.EXPLANATION).strip()
    EXTRA_CHECKS = list(getattr(_layout, "EXTRA_CHECKS", [])) + list(_wire.EXTRA_CHECKS)
