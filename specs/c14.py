"""
C14 - Delimited (appendable) types evolve without breaking containers or the wire.

  * wire half: specs/c14_wire.py (contracts of pydsdl/_serdes.py tagged C14, in specs/c06.py);
  * layout half (container bit length set / extent / following offsets depend only on the extent of a nested delimited
    type): HOOK - to be added here by the coordinator on top of the C02/C08 contracts (specs/c02.py tags them with C14).
"""
from .c14_wire import *  # noqa: F401,F403
from .c14_wire import LEAN, LEVEL, NATIVE, NATIVE_BUDGET, EXTRA_CHECKS, NOT_COVERED, EXPLANATION, ASSUMPTIONS  # noqa
