"""
C10 - Namespace reading is complete, ordered and deterministic.

Deductive part: the ordering functions of _dsdl.py against the order stated by the property ("sorted by full name, then
major, then minor version, newest first"), relative to the assumed library contract of `sorted` (a stable permutation
ordered by the key).  Structural part: a census of every place where a hash-ordered collection (set) is turned into a
sequence, each with the reason why the iteration order cannot reach the result (EXTRA check, named obligations).
Bounded part (native, never counted): bookkeeping of read_definitions, path-argument normalisation and the root
namespace collision / nesting rule on the real functions.
"""
import ast
import z3
from pyvc.spec import contract, class_spec, inline_ok
from pyvc.values import Int, Bool, Str, SeqOf, ObjOf, Obj, SymSeq
from pyvc.speclib import AND, OR, NOT, IMPLIES, EQ, FORALL_IDX, EXISTS_IDX, AT, LEN, smt
from pyvc import speclib
from .common import COMPOSITE, VersionK
from .c09 import DSDLFILE, READABLE, DSDLDEF, NAME, VERSION, SAME_OBJ, _scratch_dir

P = ["C10"]
S = "pydsdl._dsdl."
LEVEL = "proof"


# ------------------------------------------------------------------------------------------------ oracle
def name_of(d):
    if smt():
        return d._name if d.cls.name != "DSDLFile" and not d.cls.qualname.startswith("pydsdl._dsdl") else NAME(d)
    return d.full_name


def version_of(d):
    if smt():
        return d._version if not d.cls.qualname.startswith("pydsdl._dsdl") else VERSION(d)
    return d.version


def STR_LT(a, b):
    if smt():
        return Str.unwrap(a) < Str.unwrap(b)
    return a < b


def before_or_equal(a, b):
    """Statement: sorted by full name, then major, then minor version, newest first."""
    va, vb = version_of(a), version_of(b)
    return OR(STR_LT(name_of(a), name_of(b)),
              AND(EQ(name_of(a), name_of(b)),
                  OR(va.major > vb.major, AND(va.major == vb.major, va.minor >= vb.minor))))


def is_sorted(seq):
    return FORALL_IDX(seq, lambda i, a: FORALL_IDX(seq, lambda j, b: before_or_equal(a, b), lo=i + 1, name="j"))


def same_elements(out, inp):
    """every element of the input occurs in the output and vice versa, and the lengths agree"""
    return AND(LEN(out) == LEN(inp),
               FORALL_IDX(inp, lambda i, x: EXISTS_IDX(out, lambda j, y: SAME_OBJ(x, y), name="j")),
               FORALL_IDX(out, lambda j, y: EXISTS_IDX(inp, lambda i, x: SAME_OBJ(x, y), name="i2"), name="j2"))


# ------------------------------------------------------------------------------------------------ contracts
def _rank_value(s):
    v = version_of(s.d)
    return (name_of(s.d), -v.major, -v.minor)


_KINDS = lambda: [{"d": ObjOf(DSDLFILE)}, {"d": ObjOf(COMPOSITE)}]


@contract(S + "get_definition_ordering_rank", props=P)
class _Rank:
    """The sort key: ascending in it means name ascending, then newest version first."""
    instances = _KINDS
    value = staticmethod(_rank_value)

    def post(s):
        v = version_of(s.d)
        r = s.result
        return {"name-first": EQ(r[0], name_of(s.d)), "newest-major-first": r[1] == -v.major,
                "newest-minor-first": r[2] == -v.minor, "three-components": len(r) == 3}


@contract(S + "file_sort", props=P)
class _FileSort:
    instances = lambda: [{"file_list": SeqOf(ObjOf(DSDLFILE))}, {"file_list": SeqOf(ObjOf(COMPOSITE))}]

    def post(s):
        return {"permutation": same_elements(s.result, s.file_list), "sorted-newest-first": is_sorted(s.result)}


# ------------------------------------------------------------------------------------------------ native harness
from pyvc.native import NativeSuite
from .c09 import _stub_classes

NATIVE = NativeSuite()


def _gen_defs(rng, i):
    n = rng.choice([0, 1, 2, 3, 4, 5])
    return {"defs": [[rng.choice(["ns.A", "ns.B", "ns.a", "ns.Ab", "m.Z"]), [rng.choice([0, 1, 2, 10]), rng.choice([0, 1, 2, 10])]]
                     for _ in range(n)]}


def _build_sort(desc):
    from pydsdl import _dsdl

    StubDefinition, _ = _stub_classes()
    defs = [StubDefinition(n, tuple(v)) for n, v in desc["defs"]]
    return (lambda: _dsdl.file_sort(defs)), {"file_list": defs}


def _build_rank(desc):
    from pydsdl import _dsdl

    StubDefinition, _ = _stub_classes()
    if not desc["defs"]:
        return None
    d = StubDefinition(desc["defs"][0][0], tuple(desc["defs"][0][1]))
    return (lambda: _dsdl.get_definition_ordering_rank(d)), {"d": d}


NATIVE.add(S + "file_sort", _gen_defs, _build_sort)
NATIVE.add(S + "get_definition_ordering_rank", _gen_defs, _build_rank)


# ------------------------------------------------------------------------------------------------ determinism census
DET_MODULES = ["pydsdl._namespace", "pydsdl._namespace_reader", "pydsdl._dsdl"]
ORDER_CONSUMERS = {"list", "tuple", "sorted", "file_sort", "dsdl_file_sort", "chain", "product", "next", "iter", "zip", "map",
                   "filter", "enumerate", "join", "for", "comprehension", "reversed", "min", "max"}
# (function, consumer) -> why the iteration order of the hash-ordered collection cannot reach the returned value
JUSTIFIED = {
    ("pydsdl._namespace._construct_dsdl_definitions_from_files", "dsdl_file_sort"):
        "a set of DSDLDefinition: == / hash are (full name, version) (C09 DSDLDefinition.__eq__/__hash__ contracts), so the "
        "sort key is injective on the set and the stable sort result does not depend on the iteration order",
    ("pydsdl._namespace_reader._read_definitions", "dsdl_file_sort"):
        "a set of DSDLDefinition: the sort key (full name, version) is injective on it (C09 __eq__/__hash__ contracts)",
    ("pydsdl._namespace_reader.read_definitions", "dsdl_file_sort"):
        "sets of composite types: two distinct members with the same (full name, version) make _complete_read_function "
        "raise MultipleDefinitionsUnderSameVersionError (C11 contract of _ensure_minor_version_compatibility over "
        "transitive + direct), so no result is returned in that case; otherwise the key is injective",
    ("pydsdl._namespace.read_files", "chain"):
        "the chained paths flow only into _construct_lookup_directories_path_list, which sorts them totally",
    ("pydsdl._namespace._ensure_no_namespace_name_collisions_or_nested_root_namespaces", "product"):
        "only the choice of the reported pair (and thereby the InvalidDefinitionError subclass / message) depends on the "
        "order; whether an error is raised does not",
}


def _set_typed_names(fn):
    names = set()
    a = fn.args
    for p in a.posonlyargs + a.args + a.kwonlyargs:
        if p.annotation is not None and ast.unparse(p.annotation).lower().startswith("set["):
            names.add(p.arg)
    for n in ast.walk(fn):
        if isinstance(n, ast.Assign) and _is_set_expr(n.value):
            names.update(t.id for t in n.targets if isinstance(t, ast.Name))
        elif isinstance(n, ast.AnnAssign) and isinstance(n.target, ast.Name):
            if ast.unparse(n.annotation).lower().startswith("set[") or (n.value is not None and _is_set_expr(n.value)):
                names.add(n.target.id)
    return names


def _is_set_expr(e):
    return isinstance(e, (ast.Set, ast.SetComp)) or (
        isinstance(e, ast.Call) and isinstance(e.func, ast.Name) and e.func.id in ("set", "frozenset"))


def determinism_census(eng, tier, seed):
    """Every place where a hash-ordered collection is turned into a sequence must be (a) a total sort (`sorted(x)` without
    key), (b) inside a logging call, or (c) listed in JUSTIFIED with the reason why the order cannot reach the result."""
    obligations, per_fn = [], {}
    for m in DET_MODULES:
        mi = eng.repo.modules[m]
        fns = []
        for st in mi.tree.body:
            if isinstance(st, ast.FunctionDef) and not st.name.startswith("_unittest"):
                fns.append((m + "." + st.name, st))
            elif isinstance(st, ast.ClassDef):
                fns.extend(("%s.%s.%s" % (m, st.name, sub.name), sub) for sub in st.body if isinstance(sub, ast.FunctionDef))
        for q, fn in fns:
            parents = {}
            for n in ast.walk(fn):
                for c in ast.iter_child_nodes(n):
                    parents[c] = n
            setnames = _set_typed_names(fn)
            sites, bad = [], []
            for n in ast.walk(fn):
                is_set_value = (isinstance(n, ast.Name) and isinstance(n.ctx, ast.Load) and n.id in setnames) or _is_set_expr(n)
                if not is_set_value or n not in parents:
                    continue
                p = parents[n]
                consumer = None
                if isinstance(p, ast.Call) and (n in p.args or any(k.value is n for k in p.keywords if k.arg is None)):
                    f = p.func
                    consumer = f.id if isinstance(f, ast.Name) else getattr(f, "attr", None)
                    if consumer == "sorted" and not p.keywords and len(p.args) == 1:
                        sites.append("line %d: totally sorted" % n.lineno)
                        continue
                elif isinstance(p, ast.comprehension) and p.iter is n:
                    if isinstance(parents.get(p), ast.SetComp):
                        continue  # building a set from a set: the order is not observable
                    consumer = "comprehension"
                elif isinstance(p, ast.For) and p.iter is n:
                    consumer = "for"
                elif isinstance(p, ast.Starred):
                    consumer = "comprehension"
                if consumer not in ORDER_CONSUMERS:
                    continue
                # inside a logging call: the order is only logged
                anc, logged = p, False
                while anc in parents:
                    if isinstance(anc, ast.Call) and ast.unparse(anc.func).startswith(("_logger.", "logging.")):
                        logged = True
                        break
                    anc = parents[anc]
                if logged:
                    sites.append("line %d: only logged" % n.lineno)
                    continue
                if consumer in ("set", "frozenset"):
                    continue
                why = JUSTIFIED.get((q, consumer))
                if why:
                    sites.append("line %d: %s(...): %s" % (n.lineno, consumer, why))
                else:
                    bad.append("line %d: the iteration order of a hash-ordered collection reaches `%s` (%s) and no reason "
                               "is known why it cannot influence the result" % (n.lineno, consumer, ast.unparse(p)[:90]))
            if sites or bad:
                sq = q.replace("pydsdl.", "")
                per_fn[sq] = sites + bad
                obligations.append({"name": "%s/determinism#set-order-unobservable" % sq, "ok": not bad,
                                    "detail": "; ".join(bad), "function": q})
    return {"check": "determinism-census", "obligations": obligations, "violations": [], "sites": per_fn}


def hash_seed_probe(eng, tier, seed):
    """Bounded native probe (never counted): the real read_namespace on namespaces whose files parse to the same
    (name, version) - `Foo.1.0.dsdl` next to an identical `Foo.1.0.uavcan` - under several PYTHONHASHSEED values."""
    import os
    import shutil
    import subprocess
    import sys
    import tempfile
    from pyvc.frontend import REPO_ROOT

    base = tempfile.mkdtemp(prefix="c09-c10-")
    out = {}
    try:
        ns = os.path.join(base, "ns")
        os.makedirs(ns)
        for fn in ("Foo.1.0.dsdl", "Foo.1.0.uavcan"):
            with open(os.path.join(ns, fn), "w") as f:
                f.write("uint8 a\n@sealed\n")
        code = ("import logging, pydsdl; logging.disable(logging.CRITICAL)\n"
                "print([(str(t), t.source_file_path.name) for t in pydsdl.read_namespace(%r)])" % ns)
        seeds = range(8) if tier == "quick" else range(32)
        for hs in seeds:
            env = dict(os.environ, PYTHONHASHSEED=str(hs), PYTHONPATH=REPO_ROOT)
            p = subprocess.run([sys.executable, "-W", "ignore", "-c", code], env=env, stdout=subprocess.PIPE,
                               stderr=subprocess.DEVNULL, text=True, timeout=120)
            out.setdefault(p.stdout.strip().splitlines()[-1] if p.stdout.strip() else "<no output>", []).append(hs)
    finally:
        shutil.rmtree(base, ignore_errors=True)
    violations = []
    if len(out) > 1:
        violations.append({"name": "_namespace.read_namespace/native#hash-seed-independence",
                           "detail": "read_namespace returns different values under different PYTHONHASHSEED",
                           "concrete": {"files": {"ns/Foo.1.0.dsdl": "uint8 a\\n@sealed\\n", "ns/Foo.1.0.uavcan": "uint8 a\\n@sealed\\n"},
                                        "call": "pydsdl.read_namespace('ns')", "results_by_hash_seed": out}})
    return {"check": "hash-seed probe (bounded, not counted)", "bound": "8 hash seeds, one namespace", "outcomes": out,
            "violations": violations}


def targets_come_from_the_requested_places(eng, tier, seed):
    """'none taken from lookup directories': the definitions that read_namespace / read_files read as TARGETS are built
    from the root directory / the requested files only.  This is the provenance half of the modular effect contract of
    specs/c19.py (declared vs inferred, pyvc/effects.py); the obligations of the entry points and of the functions that
    construct the target and lookup lists are re-checked here under this property."""
    import importlib

    c19 = importlib.import_module("specs.c19")
    out = c19.effect_check(eng, tier, seed)
    keep = ("_namespace.read_namespace/", "_namespace.read_files/", "_namespace._complete_read_function/",
            "_namespace._construct_dsdl_definitions_from_namespaces/", "_namespace._construct_dsdl_definitions_from_files/",
            "_namespace._construct_lookup_directories_path_list/", "_namespace_reader.read_definitions/",
            "_namespace_reader._read_definitions/")
    obs = [o for o in out.get("obligations", []) if o["name"].startswith(keep)]
    return {"check": "provenance of the target definitions (effect contract shared with C19)", "obligations": obs,
            "violations": [], "functions_analysed": sorted(set(o["function"] for o in obs))}


from .fsprobe import extra_spelling_probe  # noqa: E402  bounded stand-in for the file-system part (shared with C15)

from .reader_link import reader_contracts  # noqa: E402  the reader's bookkeeping, proved in its own process (C10R)

EXTRA_CHECKS = [determinism_census, hash_seed_probe, targets_come_from_the_requested_places, extra_spelling_probe, reader_contracts]


# ------------------------------------------------------------------------------------------------ bounded stand-ins
# Functions the engine cannot reach (sets of objects mutated through parameters, nested classes, recursion; pathlib and
# the file system): their contracts are evaluated natively on the real functions only.  Reported under coverage.bounded,
# never counted as obligations, never used by a proof.
_BOUNDED = "bounded stand-in: evaluated natively on the real function only; no proof uses this contract"


def _closure(desc, targets):
    """expected dependency closure from the description: (names of targets, names of the rest) or None on any error"""
    by_key = {}
    for f in desc["files"]:
        by_key.setdefault((f["name"].lower(), tuple(f["version"])), []).append(f)

    def key(f):
        return "ns.%s.%d.%d" % (f["name"], f["version"][0], f["version"][1])

    seen, order, todo = set(), [], list(targets)
    while todo:
        f = todo.pop()
        if key(f) in seen:
            continue
        seen.add(key(f))
        order.append(f)
        if f["bad"]:
            return None
        for rname, rver in f["refs"]:
            short = rname.split(".")[-1]
            if rname.count(".") > 1 or (rname.count(".") == 1 and not rname.startswith("ns.")):
                return None
            cands = by_key.get((short.lower(), tuple(rver)), [])
            if len(cands) != 1 or cands[0]["name"] != short or cands[0] is f:
                return None
            todo.append(cands[0])
    tk = {key(f) for f in targets}
    return tk, {key(f) for f in order} - tk


@contract("pydsdl._namespace_reader.read_definitions", props=P)
class _ReadDefinitions:
    verify = False
    assumed = _BOUNDED
    may_raise = ["Error"]

    def post(s):
        if smt():
            return {}
        d, t = list(s.result.direct), list(s.result.transitive)
        key = lambda c: "%s.%d.%d" % (c.full_name, c.version.major, c.version.minor)
        rank = lambda c: (c.full_name, -c.version.major, -c.version.minor)
        exp = s.expected
        return {
            "direct-transitive-disjoint": not (set(map(key, d)) & set(map(key, t))),
            "no-duplicates": len(set(map(key, d))) == len(d) and len(set(map(key, t))) == len(t),
            "sorted": d == sorted(d, key=rank) and t == sorted(t, key=rank),
            "targets-are-direct": exp is None or set(map(key, d)) == exp[0],
            "rest-of-closure-is-transitive": exp is None or set(map(key, t)) == exp[1],
            "one-object-per-path": len({c.source_file_path for c in d + t}) == len(d + t),
        }


def _gen_read_defs(rng, i):
    from .c09 import _gen_namespace

    desc = _gen_namespace(rng, i)
    n = len(desc["files"])
    desc["targets"] = sorted(rng.sample(range(n), rng.choice([1, 1, 2, min(3, n)]) if n >= 2 else 1))
    if rng.random() < 0.2:
        desc["targets"] = desc["targets"] + desc["targets"][:1]  # a target listed twice
    return desc


def _build_read_defs(desc):
    from .c09 import _materialise
    from pydsdl import _namespace_reader, _dsdl

    defs = _materialise(desc)
    targets = [defs[k] for k in desc["targets"]]
    lookup = _dsdl.file_sort(defs)
    expected = _closure(desc, [desc["files"][k] for k in desc["targets"]])
    return (lambda: _namespace_reader.read_definitions(targets, lookup, None, True)), {
        "target_definitions": targets, "lookup_definitions": lookup, "expected": expected}


@contract("pydsdl._dsdl.normalize_paths_argument_to_list@bounded", props=P)
class _NormalizePaths:
    verify = False
    assumed = _BOUNDED
    raises = {"TypeError": lambda s: True if smt() else (
        s.arg is not None and not isinstance(s.arg, (str, __import__("pathlib").Path)) and (
            not hasattr(s.arg, "__iter__") or any(not isinstance(x, (str, __import__("pathlib").Path)) for x in s.arg)))}

    def post(s):
        if smt():
            return {}
        from pathlib import Path

        a = s.arg
        items = [] if a is None else [a] if isinstance(a, (str, Path)) else list(a)
        want = []
        for x in items:
            if Path(x) not in want:
                want.append(Path(x))
        return {"order-preserving-deduplication": list(s.result) == want,
                "all-paths": all(isinstance(x, Path) for x in s.result)}


def _gen_paths(rng, i):
    pool = ["a", "a/b", "./a", "/x/y", "a", "b", "a/b"]
    kind = rng.choice(["none", "str", "path", "list", "list", "list", "bad", "badlist"])
    return {"kind": kind, "items": [[rng.choice(pool), rng.random() < 0.5] for _ in range(rng.choice([0, 1, 2, 3, 5]))]}


def _build_paths(desc):
    from pathlib import Path
    from pydsdl import _dsdl

    k = desc["kind"]
    items = [Path(p) if as_path else p for p, as_path in desc["items"]]
    arg = None if k == "none" else "a/b" if k == "str" else Path("a/b") if k == "path" else 42 if k == "bad" else \
        items + [3.5] if k == "badlist" else items
    return (lambda: _dsdl.normalize_paths_argument_to_list(arg)), {"arg": arg, "namespaces_or_namespace": arg}


@contract("pydsdl._namespace._ensure_no_namespace_name_collisions_or_nested_root_namespaces@bounded", props=P)
class _RootDirs:
    verify = False
    assumed = _BOUNDED

    @staticmethod
    def _bad(s, need_nested):
        ds = sorted({d.resolve() for d in s.directories})
        out = False
        for a in ds:
            for b in ds:
                if a != b:
                    nested = b in a.parents
                    clash = (not s.allow_name_collisions) and a.name.lower() == b.name.lower()
                    out = out or nested or clash
        return out

    # statement: rejected with InvalidDefinitionError exactly when one directory lies inside another or - if name
    # collisions are disallowed - two distinct ones have the same name ignoring case
    raises = {"InvalidDefinitionError": lambda s: True if smt() else _RootDirs._bad(s, False)}


def _gen_dirs(rng, i):
    pool = ["r1/uavcan", "r2/uavcan", "r2/UAVCAN", "r1/uavcan/node", "r3/vendor", "r1/uavcan/../uavcan", "r3/vendor/deep/x"]
    return {"dirs": rng.sample(pool, rng.choice([1, 2, 2, 3, 4])), "allow": rng.random() < 0.5}


def _build_dirs(desc):
    import os
    from pathlib import Path
    from pydsdl import _namespace

    base = Path(_scratch_dir()) / "dirs"
    dirs = []
    for d in desc["dirs"]:
        os.makedirs(base / d.replace("/../uavcan", ""), exist_ok=True)
        dirs.append(base / d)
    return (lambda: _namespace._ensure_no_namespace_name_collisions_or_nested_root_namespaces(dirs, desc["allow"])), {
        "directories": dirs, "allow_name_collisions": desc["allow"]}


NATIVE.add("pydsdl._namespace_reader.read_definitions", _gen_read_defs, _build_read_defs)
NATIVE.add("pydsdl._dsdl.normalize_paths_argument_to_list@bounded", _gen_paths, _build_paths)
NATIVE.add("pydsdl._namespace._ensure_no_namespace_name_collisions_or_nested_root_namespaces@bounded", _gen_dirs, _build_dirs)
# the same inputs against the deductively verified contracts of specs/c10_dirs.py (native reading of the same clauses)
NATIVE.add("pydsdl._namespace._ensure_no_namespace_name_collisions_or_nested_root_namespaces", _gen_dirs, _build_dirs)
NATIVE_BUDGET = {"quick": 150, "thorough": 2000}

NOT_COVERED = [
    "rglob completeness (exactly one definition per *.dsdl / *.uavcan file under the root), symlinks, relative / absolute "
    "spelling of directory arguments, enumeration order of the operating system: file system, out of reach",
    "_read_definitions / read_definitions bookkeeping (direct and transitive disjoint, level-0 targets in direct incl. "
    "promotion, deeper levels only in transitive, one object per path, termination) is proved in its own process (runner C10R, "
    "specs/c10_reader.py; extra check reader_contracts, reported under extra_checks) relative to the assumed model of "
    "ReadableDSDLFile.read; that the result lists are in file_sort order rests on C10's file_sort contract applied to an "
    "arbitrary enumeration of the set (JUSTIFIED census entries); the bounded native stand-in stays as a cross-check",
    "the iterable form of normalize_paths_argument_to_list (order-preserving de-duplication through a stateful filter over "
    "elements of mixed type): bounded native stand-in only.  _ensure_no_namespace_name_collisions_or_nested_root_namespaces "
    "and the scalar forms of normalize_paths_argument_to_list are proved in specs/c10_dirs.py relative to assumed pathlib "
    "relations",
    "that read_files yields the same types as read_namespace for the same files",
]
EXPLANATION = ("file_sort / get_definition_ordering_rank are proved against the order of the statement relative to the "
               "assumed contract of sorted(); a structural census proves that no hash-ordered iteration reaches a result "
               "without a stated reason; everything else of C10 is bounded or not covered.")
ASSUMPTIONS = ["library contract of sorted(): stable permutation ordered by the key (pyvc/libmodel.py bi_sorted)",
               "determinism census: sets are recognised syntactically (set()/set display/set comprehension/annotation "
               "set[...]) inside one function; the reasons in JUSTIFIED are arguments, cited with the contracts they rest on"]

# deductive contracts for the directory-argument functions (the "@bounded" stand-ins above stay as native cross-checks)
from . import c10_dirs  # noqa: E402,F401


# effect obligations (AST): reading twice in one process gives the same answer for the same files - no argument-keyed cache
# (e.g. a memoised directory listing), no module-level state in the reader modules - see specs/common.py
from .common import no_hidden_state_check as _no_hidden_state_check  # noqa: E402
EXTRA_CHECKS = list(globals().get("EXTRA_CHECKS", [])) + [_no_hidden_state_check(
    ["pydsdl._namespace", "pydsdl._namespace_reader", "pydsdl._dsdl", "pydsdl._dsdl_definition"], "the namespace reader")]
