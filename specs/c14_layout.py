"""
C14, layout half: replacing a nested delimited (appendable) type D by a revision D' with the same extent leaves the
container's bit_length_set, extent and everything computed from them unchanged.

Lemmas over the C02 contracts (no new assumption about the code): the class invariant of DelimitedType - established by
DelimitedType.__init__, obligations inv#DelimitedType.* of C02 - says that its bit length set is header + {0, 8, ..., extent},
its alignment 8 and its extent the declared one, irrespective of the fields of the wrapped type.  Every container computes
its own layout from L(.) and A(.) of its field / element types only (C02: structure fold, union, arrays), hence from equal
inputs.  The offsets of the following fields (C08) are functions of the same L(.) / A(.).
"""
import z3
from pyvc.values import ObjOf, SeqOf, Int
from pyvc.speclib import AND, OR, NOT, IMPLIES, FORALL_IDX, LEN, AT
from pyvc import settheory as st
from pyvc.settheory import SETEQ, SMAX, kfold_s, rangefold, sumset, singleton, padset
from . import c02
from .c02 import L, A, EXTENT, SFOLD, UNIONS_L, SERIALIZABLE, DELIMITED, PREFIX_WIDTH, TAG_WIDTH

P = ["C14"]


def _two_delimited(ctx):
    d1 = ctx.fresh_kind("d1", ObjOf(DELIMITED, exact=True))
    d2 = ctx.fresh_kind("d2", ObjOf(DELIMITED, exact=True))
    for d in (d1, d2):
        ctx.assume(ctx.engine.tag_fn(d.ref) == ctx.engine.class_id(ctx.engine.class_by_name("DelimitedType")))
    ctx.assume(d1._extent == d2._extent)  # the revision keeps the extent; nothing is assumed about the wrapped types
    return d1, d2


def lemma_delimited_layout_is_a_function_of_the_extent(ctx):
    d1, d2 = _two_delimited(ctx)
    return {"same-bit-length-set": SETEQ(L(d1), L(d2)), "same-alignment": A(d1) == A(d2), "same-extent": EXTENT(d1) == EXTENT(d2)}


def _two_type_lists(ctx):
    """two lists of field types that agree in L and A position by position (e.g. differ only in a delimited D vs D')"""
    ts1 = ctx.fresh_kind("ts1", SeqOf(ObjOf(SERIALIZABLE)))
    ts2 = ctx.fresh_kind("ts2", SeqOf(ObjOf(SERIALIZABLE)))
    ctx.engine.assume_wellformed(ctx, ts1)
    ctx.engine.assume_wellformed(ctx, ts2)
    ctx.assume(ts1.length == ts2.length)
    i = z3.FreshConst(z3.IntSort(), "i")
    a, b = z3.Select(ts1.arr, i), z3.Select(ts2.arr, i)
    ctx.assume(z3.ForAll([i], z3.Implies(z3.And(0 <= i, i < ts1.length),
                                         z3.And(st.L_uf(a) == st.L_uf(b), st.A_uf(a) == st.A_uf(b))),
                         patterns=[z3.MultiPattern(a, b)] if False else [a, b]))
    return ts1, ts2


def lemma_structure_layout_depends_on_field_layouts_only(ctx):
    ts1, ts2 = _two_type_lists(ctx)
    s1, s2 = padset(SFOLD(ts1), 8), padset(SFOLD(ts2), 8)
    return {"same-bit-length-set": SETEQ(s1, s2), "same-sealed-extent": SMAX(s1) == SMAX(s2)}


def lemma_union_layout_depends_on_variant_layouts_only(ctx):
    ts1, ts2 = _two_type_lists(ctx)
    u1 = padset(sumset(singleton(TAG_WIDTH(LEN(ts1))), UNIONS_L(ts1)), 8)
    u2 = padset(sumset(singleton(TAG_WIDTH(LEN(ts2))), UNIONS_L(ts2)), 8)
    return {"same-bit-length-set": SETEQ(u1, u2)}


def lemma_array_layout_depends_on_element_layout_only(ctx):
    d1, d2 = _two_delimited(ctx)
    c = ctx.fresh_kind("capacity", Int)
    ctx.assume(c >= 1)
    return {"fixed": SETEQ(kfold_s(L(d1), c), kfold_s(L(d2), c)),
            "variable": SETEQ(sumset(singleton(PREFIX_WIDTH(c)), rangefold(L(d1), c)),
                              sumset(singleton(PREFIX_WIDTH(c)), rangefold(L(d2), c)))}


LEMMAS = {
    "delimited-layout-is-a-function-of-the-extent": lemma_delimited_layout_is_a_function_of_the_extent,
    "structure-layout-depends-on-field-layouts-only": lemma_structure_layout_depends_on_field_layouts_only,
    "union-layout-depends-on-variant-layouts-only": lemma_union_layout_depends_on_variant_layouts_only,
    "array-layout-depends-on-element-layout-only": lemma_array_layout_depends_on_element_layout_only,
}
LEAN = ["Layout.lean"]
