"""
C05 - A definition is accepted if and only if it obeys the static rules of DSDL.

Each rule is a two-sided exceptional contract "raises X iff not rule" on the real function that enforces it; the rule
text is transcribed from the property statement / Specification (specs/names.py for the name rule), not from the code.
"""
import z3
from pyvc import strmodel
from pyvc.spec import contract, class_spec, loop_invariant, inline_ok, REG
from pyvc.values import Int, Bool, Str, Opt, SeqOf, ObjOf, EnumOf, Rec
from pyvc.speclib import (AND, OR, NOT, IMPLIES, IFF, ITE, EQ, IS_NONE, VAL, ISINST, AS, FORALL_IDX, EXISTS_IDX, LEN, AT,
                          smt)
from pyvc import speclib
from .common import (SERIALIZABLE, COMPOSITE, SERVICE, DELIMITED, PRIMITIVE, BOOLEAN_T, SIGNED_T, UNSIGNED_T, BYTE_T, UTF8_T,
                     FLOAT_T, VOID_T, CASTMODE, ATTRIBUTE, FIELD, PADDING, CONSTANT, SATURATED, TRUNCATED, cast_mode_ord)
from . import c12  # noqa  PrimitiveType / ArithmeticType / FloatType constructors (props include C05)
from . import c02  # noqa  ArrayType / FixedLengthArrayType / IntegerType / UnsignedIntegerType constructors (props include C05)
from . import c03  # noqa  DataSchemaBuilder / DataTypeBuilder class specs and the directive / attribute handler contracts (reused)
from .names import VALID_NAME, VALID_NAME_RULE, IS_IDENTIFIER, IS_RESERVED

strmodel.enable()
import os  # noqa: E402

# string obligations: the goal-directed slices drop the regular-expression facts that make them easy and then run into
# their time limits; they go from the ground round straight to the full query (all other obligations keep every round)
os.environ.setdefault("PYVC_STRING_DIRECT", "1")

P = ["C05"]
LEVEL = "proof"

# Contracts that name C05 but whose bodies are layout proofs completed under C02 (specs/c02.py is frozen here).
VERIFIED_ELSEWHERE = {
    "pydsdl._serializable._array.VariableLengthArrayType.__init__":
        "C02 (capacity >= 1 is enforced by ArrayType.__init__, verified here; the rest of the body is the layout proof)",
    "pydsdl._serializable._composite.DelimitedType.__init__":
        "C02 (extent rules are stated in specs/c02.py `_DelimitedInit`; the body is dominated by the layout proof)",
}


# ================================================================================================ C05-2 check_name
@contract("pydsdl._serializable._name.check_name", props=P)
class _CheckName:
    """Replaces the placeholder of specs/common.py: accepted iff the Specification's name rule holds."""
    params = dict(name=Str)
    raises = {"InvalidNameError": lambda s: NOT(VALID_NAME(s.name))}

    def definitions(s):
        # valid-name(s) is by definition the Specification's rule (specs/names.py)
        return {"valid-name": IFF(VALID_NAME(s.name), VALID_NAME_RULE(s.name))}

    def post(s):
        return {"accepted-only-if-identifier": IS_IDENTIFIER(s.name),
                "accepted-only-if-not-reserved": NOT(IS_RESERVED(s.name)),
                "accepted-only-if-valid": VALID_NAME(s.name)}


# ================================================================================================ C05-1 numeric rules
@contract(VOID_T + ".__init__", props=P + ["C02"])
class _VoidInit:
    params = dict(bit_length=Int)
    raises = {"InvalidBitLengthError": lambda s: NOT(AND(1 <= s.bit_length, s.bit_length <= 64))}

    def post(s):
        return {"width": s.self._bit_length == s.bit_length}


@contract(SIGNED_T + ".__init__", props=P)
class _SignedInit:
    params = dict(bit_length=Int)
    raises = {
        # legal bit widths: 1..64, signed >= 2
        "InvalidBitLengthError": lambda s: NOT(AND(2 <= s.bit_length, s.bit_length <= 64)),
        # no truncated signed integers
        "InvalidCastModeError": lambda s: NOT(cast_ord(s.cast_mode) == SATURATED),
    }

    def post(s):
        return {"width": s.self._bit_length == s.bit_length, "cast-mode": EQ(s.self._cast_mode, s.cast_mode)}


def cast_ord(cm):
    return cm.term if smt() else cm.value


for _cls, _w, _cm in ((BOOLEAN_T, 1, SATURATED), (BYTE_T, 8, TRUNCATED), (UTF8_T, 8, TRUNCATED)):
    def _mk(cls=_cls, w=_w, cm=_cm):
        @contract(cls + ".__init__", props=P)
        class _FixedWidthInit:
            """bool / byte / utf8 have no parameters and never raise."""

            def post(s):
                return {"width": s.self._bit_length == w, "cast-mode": cast_mode_ord(s.self) == cm}

    _mk()


# ------------------------------------------------------------------------------------------------ attributes
@contract(ATTRIBUTE + ".__init__", props=P)
class _AttributeInit:
    """Replaces the placeholder of specs/c12.py (same postcondition; the name rule is now stated):
       void-typed attributes are unnamed, every other attribute has a valid name."""
    params = dict(data_type=ObjOf(SERIALIZABLE), name=Str, doc=Str)
    self_classes = ["Attribute", "Field"]
    raises = {"InvalidNameError": lambda s: ITE(ISINST(s.data_type, "VoidType"), NOT(EQ(s.name, "")), NOT(VALID_NAME(s.name)))}

    def post(s):
        return {"type": s.self._data_type.ref == s.data_type.ref if smt() else s.self._data_type is s.data_type,
                "name": EQ(s.self._name, s.name), "doc": EQ(s.self._doc, s.doc)}


@contract(PADDING + ".__init__", props=P)
class _PaddingInit:
    params = dict(data_type=ObjOf(SERIALIZABLE), doc=Str)
    raises = {"TypeParameterError": lambda s: NOT(ISINST(s.data_type, "VoidType"))}

    def post(s):
        return {"type": s.self._data_type.ref == s.data_type.ref if smt() else s.self._data_type is s.data_type,
                "unnamed": EQ(s.self._name, ""), "doc": EQ(s.self._doc, s.doc)}


NOT_COVERED = []
EXPLANATION = ""
ASSUMPTIONS = []


# ================================================================================================ C05-3 aggregation rules
from pyvc.values import PathK, StrSet, Obj, RefSort, PathV, SymSeq, Kind  # noqa: E402
from .common import VersionK  # noqa: E402

SER = "pydsdl._serializable."
ARRAY = SER + "_array.ArrayType"
VARIABLE = SER + "_array.VariableLengthArrayType"
STRUCT = SER + "_composite.StructureType"
UNION = SER + "_composite.UnionType"
FailureK = Opt(Rec("AggregationFailure", inner=ObjOf(SERIALIZABLE), outer=ObjOf(SERIALIZABLE), message=Str))


def _eng():
    return speclib.CTX.engine


def _cid(name):
    e = _eng()
    return e.class_id(e.class_by_name(name))


def TAG(t):
    """the dynamic class of an object"""
    if t.exact:
        return z3.IntVal(_eng().class_id(t.cls))
    return _eng().tag_fn(t.ref)


def _is(t, name):
    r = ISINST(t, name)
    return r


def DEPR(t):
    """Deprecation as the Specification defines it: a composite is deprecated iff it is marked so; an array is
    deprecated iff its element type is (transitively); primitive and void types never are."""
    if not smt():
        return _native_depr(t)
    e = _eng()
    if t.fields is not None:  # materialised: the class is known
        if t.cls.is_subclass_of(e.class_by_name("CompositeType")):
            return t._deprecated
        if t.cls.is_subclass_of(e.class_by_name("ArrayType")):
            return DEPR(t._element_type)
        return False
    arr = e.uf("ghost!deprecated-array", RefSort, z3.BoolSort())(t.ref)
    return ITE(_is(t, "CompositeType"), lambda_val(lambda: AS(t, COMPOSITE)._deprecated), ITE(_is(t, "ArrayType"), arr, False))


def lambda_val(f):
    return f()


def INNER_TAG(agg):
    """the class of agg.inner_type (the wrapped composite of a delimited type, else the object itself)"""
    e = _eng()
    if agg.fields is not None:
        if agg.cls.name == "DelimitedType":
            return TAG(agg._inner)
        return TAG(agg)
    return ITE(_is(agg, "DelimitedType"), e.tag_fn(AS(agg, DELIMITED)._inner.ref), e.tag_fn(agg.ref))


def AGG_OK(t, agg, agg_deprecated=None):
    """`t` may be aggregated into `agg` (field of a composite / element of an array).  A ghost predicate of the element
    type and of what the rules look at in the aggregate: its class, the class of its inner type, its deprecation.
    Its definition by cases on the class of `t` is RULE below; every override of _check_aggregation is obligated to it."""
    if not smt():
        return _native_rule(t, agg)
    uf = _eng().uf("ghost!agg_ok", RefSort, z3.IntSort(), z3.IntSort(), z3.BoolSort(), z3.BoolSort())
    # `agg_deprecated`: the deprecation flag of an aggregate that is still being constructed (constructor argument)
    d = DEPR(agg) if agg_deprecated is None else agg_deprecated
    # a service type is not serializable, hence never a field / variant / element type: part of the definition
    return AND(NOT(_is(t, "ServiceType")), uf(t.ref, TAG(agg), INNER_TAG(agg), z3.BoolVal(d) if isinstance(d, bool) else d))


def SERVICE_NEVER_OK(t, agg):
    """Lemma (the ServiceType case of the definition of AGG_OK): whatever passed the aggregation check is not a service
    type.  Exported for specs/c02.py: together with the postcondition `every-attribute-passed-aggregation` of
    CompositeType.__init__ it gives "no field / variant has a service type" without a precondition."""
    return IMPLIES(AGG_OK(t, agg), NOT(ISINST(t, "ServiceType")))


def BASE_RULE(t, agg):
    """no use of a deprecated type by a non-deprecated one"""
    return NOT(AND(DEPR(t), NOT(DEPR(agg))))


def _subclass_ids(name):
    e = _eng()
    return [e.class_id(c) for c in e.class_by_name(name).all_subclasses()]


def TAG_IN(tag, name):
    return OR(*[tag == i for i in _subclass_ids(name)])


def RULE(t, agg):
    """The Specification's aggregation rules by class of the element type `t` (self of an override: class known)."""
    if not smt():
        return _native_rule(t, agg)
    n = t.cls.name
    base = BASE_RULE(t, agg)
    if n == "ServiceType":  # a service type is not serializable: never a field, variant or array element
        return False
    if n == "ByteType":  # byte only as array element
        return AND(_is(agg, "ArrayType"), base)
    if n == "UTF8Type":  # utf8 only as element of variable-length arrays
        return AND(_is(agg, "VariableLengthArrayType"), base)
    if n == "VoidType":  # void only as structure padding
        return AND(_is(agg, "CompositeType"), TAG_IN(INNER_TAG(agg), "StructureType"), base)
    if n in ("FixedLengthArrayType", "VariableLengthArrayType"):  # transitive through arrays
        return AND(AGG_OK(t._element_type, t), base)
    if n == "DelimitedType":  # transitive through delimited wrappers
        return AND(AGG_OK(t._inner, agg), base)
    return base


def _native_depr(t):
    from pydsdl import _serializable as S

    if isinstance(t, S.CompositeType):
        return t._deprecated
    if isinstance(t, S.ArrayType):
        return _native_depr(t.element_type)
    return False


def _native_rule(t, agg):
    from pydsdl import _serializable as S

    base = not (_native_depr(t) and not _native_depr(agg))
    if isinstance(t, S.ServiceType):
        return False
    if isinstance(t, S.ByteType):
        return isinstance(agg, S.ArrayType) and base
    if isinstance(t, S.UTF8Type):
        return isinstance(agg, S.VariableLengthArrayType) and base
    if isinstance(t, S.VoidType):
        return isinstance(agg, S.CompositeType) and isinstance(agg.inner_type, S.StructureType) and base
    if isinstance(t, S.ArrayType):
        return _native_rule(t.element_type, t) and base
    if isinstance(t, S.DelimitedType):
        return _native_rule(t.inner_type, agg) and base
    return base


@contract(SERIALIZABLE + ".deprecated@dynamic", props=P)
class _DeprecatedIface:
    """Interface contract of the abstract property `deprecated`; the overrides are obligated to it below."""
    returns = Bool
    verify = False
    assumed = "interface contract; each override (PrimitiveType, VoidType, ArrayType, CompositeType) is verified against DEPR"

    def post(s):
        return {"is-deprecation": IFF(s.result, DEPR(s.self))}


@contract(ARRAY + ".deprecated", props=P)
class _ArrayDeprecated:
    returns = Bool
    self_classes = ["FixedLengthArrayType", "VariableLengthArrayType"]

    def post(s):
        return {"is-deprecation": IFF(s.result, DEPR(s.self))}


@contract(SERIALIZABLE + "._check_aggregation@dynamic", props=P)
class _AggIface:
    """Interface contract for dynamically dispatched calls: None iff the aggregation is allowed."""
    params = dict(aggregate=ObjOf(SERIALIZABLE))
    returns = FailureK
    verify = False
    assumed = "interface contract; every override of _check_aggregation is verified against RULE (its definition by cases)"

    def post(s):
        return {"none-iff-allowed": IFF(IS_NONE(s.result), AGG_OK(s.self, s.aggregate))}


@contract(SERIALIZABLE + "._check_aggregation", props=P)
class _AggBase:
    """The body of the base class (reached through super() from every override): the deprecation rule."""
    params = dict(aggregate=ObjOf(SERIALIZABLE))
    returns = FailureK
    self_classes = ["BooleanType", "SignedIntegerType", "UnsignedIntegerType", "FloatType", "ByteType", "UTF8Type", "VoidType",
                    "FixedLengthArrayType", "VariableLengthArrayType", "StructureType", "UnionType", "DelimitedType"]
    # (ServiceType overrides the method without calling the base body)

    def post(s):
        return {"none-iff-not-deprecated-in-non-deprecated": IFF(IS_NONE(s.result), BASE_RULE(s.self, s.aggregate))}


def _agg_override(cls_q, classes):
    @contract(cls_q + "._check_aggregation", props=P)
    class _AggOverride:
        params = dict(aggregate=ObjOf(SERIALIZABLE))
        returns = FailureK
        self_classes = classes

        def post(s):
            return {"none-iff-rule": IFF(IS_NONE(s.result), RULE(s.self, s.aggregate))}

    return _AggOverride


_agg_override(PRIMITIVE, ["BooleanType", "SignedIntegerType", "UnsignedIntegerType", "FloatType"])
_agg_override(BYTE_T, ["ByteType"])
_agg_override(UTF8_T, ["UTF8Type"])
_agg_override(VOID_T, ["VoidType"])
_agg_override(ARRAY, ["FixedLengthArrayType", "VariableLengthArrayType"])
_agg_override(COMPOSITE, ["StructureType", "UnionType"])
if SERVICE + "._check_aggregation" in __import__("pyvc.frontend", fromlist=["load_repo"]).load_repo().functions \
        and "pydsdl." + SERVICE.replace("pydsdl.", "") + "._check_aggregation" not in REG.contracts:
    # the override exists from fix d74138f on (specs/c13_types.py states "always a failure" for C13; that module is not
    # loaded together with this one - same rule, here as the ServiceType case of RULE)
    _agg_override(SERVICE, ["ServiceType"])
_agg_override(DELIMITED, ["DelimitedType"])


# ================================================================================================ C05-3 CompositeType.__init__
MAX_NAME_LENGTH = 255        # Specification
MAX_VERSION = 255
MAX_SUBJECT_ID = 8191
MAX_SERVICE_ID = 511


def STRIP(name):
    if smt():
        return _eng().lib.m_str_strip(speclib.CTX, name)
    return name.strip()


def COMPONENTS(name):
    """the components of a full name separated by '.'  (shared definition: specs/names.py NAME_PARTS)"""
    from .names import NAME_PARTS

    return NAME_PARTS(name)


def AS_PATH(p):
    if smt() and not isinstance(p, PathV):
        # a path that another specification module keeps as an opaque string
        return PathV(_eng().uf("path!of-str", z3.StringSort(), PathV(None).__class__ and __import__("pyvc").values.PathSort)(p))
    return p


def UP(path, k):
    """the k-th ancestor directory of a path"""
    if smt():
        from pyvc.values import PathSort

        e = _eng()
        up = e.uf("path!up", PathSort, z3.IntSort(), PathSort)
        parent = e.uf("path!parent", PathSort, PathSort)
        p, kk = z3.Const("p!up", PathSort), z3.Int("k!up")
        ctx = speclib.CTX
        ctx.add_axiom(z3.ForAll([p], up(p, 0) == p, patterns=[up(p, 0)]))
        ctx.add_axiom(z3.ForAll([p, kk], z3.Implies(kk >= 0, z3.And(up(p, kk + 1) == parent(up(p, kk)),
                                                                  up(parent(p), kk) == up(p, kk + 1))),
                                patterns=[up(p, kk + 1), up(parent(p), kk)]))
        return PathV(up(path.term, k if isinstance(k, z3.ExprRef) else z3.IntVal(k)))
    for _ in range(k):
        path = path.parent
    return path


def STEM(path):
    if smt():
        return _eng().lib.path_attr(speclib.CTX, path, "stem")
    return path.stem


def PARENT(path):
    if smt():
        return _eng().lib.path_attr(speclib.CTX, path, "parent")
    return path.parent


def DIRS_SPELL(directory, comps, m):
    """The last m directories of `directory` spell the first m components: comps[m-1-k] names the k-th ancestor."""
    if smt():
        k = z3.FreshConst(z3.IntSort(), "k")
        m = m if isinstance(m, z3.ExprRef) else z3.IntVal(m)
        stem_k = STEM(UP(directory, k))
        return z3.ForAll([k], z3.Implies(z3.And(0 <= k, k < m), AT(comps, m - 1 - k) == stem_k), patterns=[stem_k])
    return all(comps[m - 1 - k] == UP(directory, k).stem for k in range(m))


def PORT_ID_OUT_OF_RANGE(port_id, limit):
    """a fixed port-ID is given and does not lie in 0..limit"""
    if port_id is None:
        return False
    return AND(NOT(IS_NONE(port_id)), lambda: NOT(AND(0 <= VAL(port_id), VAL(port_id) <= limit)))


def NS_COUNT(comps, has_parent_service):
    """number of namespace components that name directories: all but the short name (and but the service's own name
    for the request / response part of a service, which lives in the service's file)"""
    return LEN(comps) - ITE(has_parent_service, 2, 1)


def NAME_COLLISION(attrs):
    """two attributes share a non-empty name"""
    return EXISTS_IDX(attrs, lambda q, b: AND(NOT(EQ(b._name, "")), EXISTS_IDX(attrs, lambda p, a: EQ(a._name, b._name), hi=q,
                                                                                  name="p")), name="q")


def _attr_seq(s):
    return s.attributes


@contract(COMPOSITE + ".__init__.search_up_for_root", props=["C05", "C15"])
class _SearchUp:
    """Nested function of CompositeType.__init__: walks up the directories while they spell the namespace."""
    params = dict(path=PathK, namespace_components=SeqOf(Str))
    returns = PathK
    raises = {"InvalidNameError": lambda s: NOT(DIRS_SPELL(s.path, s.namespace_components, LEN(s.namespace_components)))}

    def pre(s):
        return {"at-least-one-component": LEN(s.namespace_components) >= 1}

    def post(s):
        return {"root-directory": EQ(s.result, UP(s.path, LEN(s.namespace_components) - 1))}


@contract(COMPOSITE + ".__init__", props=P)
class _CompositeInit:
    """Replaces the placeholder of specs/c02.py.  Every rule of the statement that CompositeType.__init__ enforces, each
    two-sided; the order in which the rules are tested is not part of the contract."""
    params = dict(name=Str, version=VersionK, attributes=SeqOf(ObjOf(ATTRIBUTE)), deprecated=Bool, fixed_port_id=Opt(Int),
                  source_file_path=PathK, has_parent_service=Bool, doc=Str)
    self_classes = ["StructureType", "UnionType", "DelimitedType", "ServiceType"]
    instances = [{"self._inner": ObjOf(COMPOSITE)}]  # DelimitedType assigns _inner before delegating to this constructor
    # the layout invariant of specs/c02.py is about the complete object (its _bls is assigned by the subclass constructor)
    inv_exempt = ["SerializableType.*"]
    publishes_args = True  # a literal attribute list (ServiceType.__init__) is kept: its fresh objects become abstract  # DelimitedType assigns _inner before delegating to this constructor

    def pre(s):
        n = STRIP(s.name)
        return {
            # the request / response part of a service is named <namespace>.<Service>.Request: three components at least
            "service-part-name": IMPLIES(s.has_parent_service, LEN(COMPONENTS(n)) >= 3),
        }

    raises = {
        "InvalidNameError": lambda s: _CompositeInit.bad_name(s),
        "InvalidVersionError": lambda s: NOT(AND(0 <= s.version.major, s.version.major <= MAX_VERSION,
                                                 0 <= s.version.minor, s.version.minor <= MAX_VERSION,
                                                 NOT(AND(s.version.major == 0, s.version.minor == 0)))),
        "AttributeNameCollisionError": lambda s: NAME_COLLISION(s.attributes),
        "InvalidFixedPortIDError": lambda s: PORT_ID_OUT_OF_RANGE(
            s.fixed_port_id, ITE(ISINST(s.self, "ServiceType"), MAX_SERVICE_ID, MAX_SUBJECT_ID)),
        "AggregationError": lambda s: EXISTS_IDX(s.attributes, lambda i, a: NOT(AGG_OK(a._data_type, s.self, _dep_arg(s)))),
    }

    @staticmethod
    def bad_name(s):
        n = STRIP(s.name)
        comps = COMPONENTS(n)
        if smt():
            ln, dot = z3.Length(n), z3.Contains(n, z3.StringVal("."))
        else:
            ln, dot = len(n), "." in n
        return OR(ln == 0, NOT(dot), ln > MAX_NAME_LENGTH,
                  EXISTS_IDX(comps, lambda i, c: NOT(VALID_NAME(c))),
                  lambda: NOT(DIRS_SPELL(PARENT(AS_PATH(s.source_file_path)), comps, NS_COUNT(comps, s.has_parent_service))))

    def post(s):
        return {
            "attributes-stored": _same_seq(s.self._attributes, s.attributes),
            "name-stored": EQ(s.self._name, STRIP(s.name)),
            "version-stored": EQ(s.self._version, s.version),
            "port-id-stored": EQ(s.self._fixed_port_id, s.fixed_port_id),
            "deprecated-stored": IFF(s.self._deprecated, s.deprecated),
            "has-parent-stored": IFF(s.self._has_parent_service, s.has_parent_service),
            # representation invariant of the name accessors (the two fields are assigned together, never again)
            "name-components-are-the-split": _seq_eq_str(s.self._name_components, COMPONENTS(s.self._name)),
            # normal return: every attribute passed the aggregation check (the negation of the AggregationError
            # condition, stated for callers); with SERVICE_NEVER_OK: no attribute has a service type
            "every-attribute-passed-aggregation": FORALL_IDX(s.attributes, lambda i, a: AGG_OK(a._data_type, s.self,
                                                                                                 _dep_arg(s))),
        }


def _dep_arg(s):
    """the aggregate's deprecation flag as the constructor argument (SMT reading: the field is not assigned yet when a
    caller evaluates the exceptional conditions)"""
    return s.deprecated if smt() else None


def _same_seq(a, b):
    """`a` is an element-wise copy of `b` (same objects in the same order)"""
    if smt():
        if isinstance(a, SymSeq) and isinstance(b, SymSeq):
            # lists are total index functions plus a length: a copy shares both (the form specs/c02.py uses)
            return AND(a.length == b.length, a.arr == b.arr)
        if isinstance(a, SymSeq) or isinstance(b, SymSeq):  # a symbolic copy of a literal list
            sym, lit = (a, b) if isinstance(a, SymSeq) else (b, a)
            items = lit.items if hasattr(lit, "items") else list(lit)
            return AND(sym.length == len(items), *[z3.Select(sym.arr, k) == x.ref for k, x in enumerate(items)])
        ia = a.items if hasattr(a, "items") else list(a)
        ib = b.items if hasattr(b, "items") else list(b)
        return AND(len(ia) == len(ib), *[x.ref == y.ref for x, y in zip(ia, ib)])
    return len(a) == len(b) and all(x is y for x, y in zip(a, b))


@loop_invariant(COMPOSITE + ".__init__", loop=1)
def _inv_unique_names(s):
    """attribute-name uniqueness loop: used_names is the set of names of the attributes seen; no collision among them"""
    attrs = s.seq
    used = s.used_names
    if used.elem_sort != z3.StringSort():  # the `set()` literal before the first add
        used_has = lambda x: z3.BoolVal(False)
    else:
        used_has = lambda x: z3.Select(used.term, x)
    x = z3.FreshConst(z3.StringSort(), "x")
    k = z3.FreshConst(z3.IntSort(), "k")
    name_at = lambda j: AT(attrs, j)._name
    return {
        "seen-names-are-used": FORALL_IDX(attrs, lambda p, a: used_has(a._name), hi=s.i, name="p"),
        "used-names-were-seen": z3.ForAll([x], z3.Implies(used_has(x), z3.Exists([k], z3.And(0 <= k, k < s.i, name_at(k) == x)))),
        "no-collision-so-far": FORALL_IDX(attrs, lambda q, b: NOT(AND(NOT(EQ(b._name, "")), EXISTS_IDX(
            attrs, lambda p, a: EQ(a._name, b._name), hi=q, name="p"))), hi=s.i, name="q"),
    }


_inv_unique_names.kinds = {"used_names": StrSet}


# ================================================================================================ native regression check
def _check_service_type_rejected(eng, tier, seed):
    """Regression check for fix d74138f (must pass): a service type used as a field type, union variant or array element
    is rejected by a static rule with an InvalidDefinitionError - AggregationError from CompositeType.__init__,
    InvalidElementTypeError from the array constructors - and never reaches the layout computation (TypeError).
    Native, concrete (not counted as proof)."""
    from pathlib import Path
    from pydsdl import _serializable as S
    from pydsdl._error import InvalidDefinitionError

    u8 = S.UnsignedIntegerType(8, S.PrimitiveType.CastMode.SATURATED)

    def part(n):
        return S.StructureType(name="ns.Svc." + n, version=S.Version(1, 0), attributes=[S.Field(u8, "a")], deprecated=False,
                               fixed_port_id=None, source_file_path=Path("ns/Svc.1.0.dsdl"), has_parent_service=True)

    svc = S.ServiceType(part("Request"), part("Response"), None)

    def comp(cls, attrs):
        return cls(name="ns.Msg", version=S.Version(1, 0), attributes=attrs, deprecated=False, fixed_port_id=None,
                   source_file_path=Path("ns/Msg.1.0.dsdl"), has_parent_service=False)

    cases = {
        "field": (lambda: comp(S.StructureType, [S.Field(svc, "x")]), "AggregationError"),
        "variant": (lambda: comp(S.UnionType, [S.Field(svc, "x"), S.Field(u8, "y")]), "AggregationError"),
        "fixed-array-element": (lambda: S.FixedLengthArrayType(svc, 2), "InvalidElementTypeError"),
        "variable-array-element": (lambda: S.VariableLengthArrayType(svc, 2), "InvalidElementTypeError"),
    }
    out = {"name": "service type rejected by a static rule", "violations": [], "observed": {}}
    for k, (make, expected) in cases.items():
        try:
            make()
            observed = "accepted"
        except InvalidDefinitionError as ex:
            observed = type(ex).__name__
        except Exception as ex:  # noqa
            observed = "crashed: %s" % type(ex).__name__
        out["observed"][k] = observed
        if observed != expected:
            out["violations"].append({
                "name": "_composite.CompositeType.__init__/native#service-type-as-%s-rejected-by-a-rule" % k,
                "detail": "expected %s, observed %s" % (expected, observed),
                "concrete": {"function": "pydsdl._serializable", "input": "ServiceType(ns.Svc.1.0) used as " + k,
                             "observed": observed}})
    return out


EXTRA_CHECKS = [_check_service_type_rejected]


# ================================================================================================ C05-4 regulated port-IDs
PIR = "pydsdl._port_id_ranges."
STANDARD_ROOT_NAMESPACES = ("uavcan", "cyphal")   # Specification: regulated ranges of the standard / vendor namespaces


def IS_STANDARD_NS(ns):
    return OR(*[EQ(STRIP(ns), x) for x in STANDARD_ROOT_NAMESPACES])


def REGULATED(port_id, ns, service):
    """fixed port-IDs within the regulated ranges of the root namespace"""
    port_id = VAL(port_id)  # an Optional known to be present at the call site
    if service:
        return ITE(IS_STANDARD_NS(ns), AND(384 <= port_id, port_id <= 511), AND(256 <= port_id, port_id <= 383))
    return ITE(IS_STANDARD_NS(ns), AND(7168 <= port_id, port_id <= 8191), AND(6144 <= port_id, port_id <= 7167))


@contract(PIR + "is_valid_regulated_subject_id", props=P)
class _RegulatedSubject:
    params = dict(regulated_id=Int, root_namespace=Str)
    returns = Bool

    def post(s):
        return {"regulated-subject-range": IFF(s.result, REGULATED(s.regulated_id, s.root_namespace, False))}


@contract(PIR + "is_valid_regulated_service_id", props=P)
class _RegulatedService:
    params = dict(regulated_id=Int, root_namespace=Str)
    returns = Bool

    def post(s):
        return {"regulated-service-range": IFF(s.result, REGULATED(s.regulated_id, s.root_namespace, True))}


# ================================================================================================ C05-4 _make_composite
DSB, SMODE, DMODE, SEALED_MODE, DTB = c03.DSB, c03.SMODE, c03.DELIM_MODE, c03.SEALED_MODE, c03.DTB
# class specifications of DataSchemaBuilder / DataTypeBuilder / the serialization modes and the contract of
# DataSchemaBuilder.attributes (fields then constants; verified under C03): specs/c03.py


def _extent_given(r, mode, delimited):
    if smt() and r.fields is not None and r.cls.name != "DelimitedType":
        return NOT(delimited)  # a result that is not a delimited type has no declared extent
    if not smt() and type(r).__name__ != "DelimitedType":
        return not delimited
    return IMPLIES(delimited, lambda: AS(r, DELIMITED)._extent == AS(VAL(mode), DMODE).extent)


@contract(DTB + "._make_composite", props=P)
class _MakeComposite:
    """exactly one of @sealed / @extent per schema: a schema without serialization mode is rejected; @extent wraps the
    schema into a delimited type with that extent, @sealed leaves it as it is; @union selects the union type."""
    params = dict(builder=c03.MutObjOf(DSB), name=Str, version=VersionK, deprecated=Bool, fixed_port_id=Opt(Int),
                  source_file_path=Str, has_parent_service=Bool)
    returns = ObjOf(COMPOSITE)
    raises = {
        "MissingSerializationModeError": lambda s: IS_NONE(s.builder._serialization_mode),
        "InvalidNameError": None, "InvalidVersionError": None, "AttributeNameCollisionError": None,
        "InvalidFixedPortIDError": None, "AggregationError": None, "MalformedUnionError": None, "InvalidExtentError": None,
        # (the composite constructors are used through the coarse contracts of specs/c03.py in this process, which name
        # only the common base class of the rule-specific errors above)
        "InvalidDefinitionError": None,
    }

    def pre(s):
        mode = s.builder._serialization_mode
        # domain: the mode objects that the directive handlers create (SerializationMode itself is never instantiated)
        return {"mode-is-sealed-or-delimited": OR(IS_NONE(mode), lambda: ISINST(VAL(mode), "DelimitedSerializationMode",
                                                                                "SealedSerializationMode"))}

    def post(s):
        mode = s.builder._serialization_mode
        delimited = AND(NOT(IS_NONE(mode)), lambda: ISINST(VAL(mode), "DelimitedSerializationMode"))
        r = s.result
        return {
            "delimited-iff-extent-given": IFF(ISINST(r, "DelimitedType"), delimited),
            "extent-is-the-given-one": _extent_given(r, mode, delimited),
            # (for a delimited result the wrapped type is not visible through the contract of DelimitedType.__init__ in
            # specs/c02.py, which does not state that `inner` is stored)
            "union-iff-marked": IMPLIES(NOT(delimited), IFF(s.builder._is_union, ISINST(r, "UnionType"))),
            "never-a-service": NOT(ISINST(r, "ServiceType")),
        }


# ================================================================================================ native harness
from pyvc.native import NativeSuite  # noqa: E402

NATIVE = NativeSuite()
NATIVE_BUDGET = {"quick": 300, "thorough": 3000}
_NAMES = ["", "a", "_", "__", "_a_", "abc", "Abc0", "0abc", "a-b", "a b", "true", "TRUE", "tRuE", "truex", "void", "void1", "Void32",
          "int", "uint8", "UINT64", "q16_8", "uq1_32", "Q1_1", "q_1", "float", "float16", "floaty", "com1", "COM9", "com10",
          "lpt0", "lpt", "con", "prn", "aux", "nul", "self", "and", "or", "not", "auto", "type", "optional", "aligned",
          "const", "struct", "super", "template", "enum", "saturated", "truncated", "bool", "false", "K", "aK",
          "Kelvin", "tasK", "İ", "aİ", "é", "Σ", "aΣ", "Ａ", "١", "a١", "x1",
          "_x", "x_", "a.b", "a\n", "int\n", "ſ", "Ⅰ"]


def _gen_name(rng, i):
    if i < len(_NAMES):
        return {"name": _NAMES[i]}
    alphabet = "aAzZ09_kK-. Kİé"
    return {"name": "".join(rng.choice(alphabet) for _ in range(rng.choice([1, 1, 2, 3, 5])))}


def _build_check_name(desc):
    from pydsdl._serializable._name import check_name

    return (lambda: check_name(desc["name"])), {"name": desc["name"]}


def _mk_simple_type(k):
    from pydsdl import _serializable as S

    cm = S.PrimitiveType.CastMode.SATURATED
    return {"void": lambda: S.VoidType(8), "u8": lambda: S.UnsignedIntegerType(8, cm), "bool": S.BooleanType,
            "byte": S.ByteType, "utf8": S.UTF8Type,
            "arr": lambda: S.FixedLengthArrayType(S.UnsignedIntegerType(8, cm), 2),
            "varr-utf8": lambda: S.VariableLengthArrayType(S.UTF8Type(), 4),
            "arr-byte": lambda: S.FixedLengthArrayType(S.ByteType(), 4)}[k]()


def _indexed(cases, rnd):
    """Generator: the listed boundary / cross-kind cases first (index-based, so that the escalation run on an undecided
    function reaches them at once), random ones afterwards."""
    def gen(rng, i):
        if i < len(cases):
            return cases[i]
        return rnd(rng, i)

    return gen


_ATTR_CASES = [{"type": t, "name": n} for t in ("void", "u8") for n in ("", "x", "true", "TRUE", "_x_", "0x", "K", "a b", "uint8", "com1")]


def _rnd_attr(rng, i):
    return {"type": rng.choice(["void", "u8", "bool", "arr"]), "name": rng.choice(_NAMES)}


_gen_attr = _indexed(_ATTR_CASES, _rnd_attr)


def _build_attr(cls):
    def build(desc):
        from pydsdl import _serializable as S

        t = _mk_simple_type(desc["type"])
        return (lambda: getattr(S, cls)(t, desc["name"])), {"data_type": t, "name": desc["name"], "doc": ""}

    return build


def _build_padding(desc):
    from pydsdl import _serializable as S

    t = _mk_simple_type(desc["type"])
    return (lambda: S.PaddingField(t)), {"data_type": t, "doc": ""}


_gen_padding = _indexed([{"type": t} for t in ("void", "u8", "bool", "byte", "arr")], lambda rng, i: None)

_WIDTH_CASES = [{"n": n, "cast": c} for n in (-1, 0, 1, 2, 3, 15, 16, 17, 31, 32, 33, 63, 64, 65, 128) for c in ("s", "t")]
_gen_width = _indexed(_WIDTH_CASES, lambda rng, i: {"n": rng.randrange(-3, 70), "cast": rng.choice(["s", "t"])})


def _cast(desc):
    from pydsdl import _serializable as S

    return S.PrimitiveType.CastMode.SATURATED if desc["cast"] == "s" else S.PrimitiveType.CastMode.TRUNCATED


def _build_width(clsname):
    def build(desc):
        from pydsdl import _serializable as S

        cm = _cast(desc)
        return (lambda: getattr(S, clsname)(desc["n"], cm)), {"bit_length": desc["n"], "cast_mode": cm}

    return build


_build_signed = _build_width("SignedIntegerType")


def _build_void(desc):
    from pydsdl import _serializable as S

    return (lambda: S.VoidType(desc["n"])), {"bit_length": desc["n"]}


_CAP_CASES = [{"cap": c, "elem": e} for c in (-1, 0, 1, 2, 255, 256) for e in ("u8", "bool")]
_gen_cap = _indexed(_CAP_CASES, lambda rng, i: {"cap": rng.randrange(-2, 70000), "elem": "u8"})


def _build_array(clsname):
    def build(desc):
        from pydsdl import _serializable as S

        t = _mk_simple_type(desc["elem"])
        return (lambda: getattr(S, clsname)(t, desc["cap"])), {"element_type": t, "capacity": desc["cap"]}

    return build


_ELEMS = ["void", "u8", "bool", "byte", "utf8", "arr", "varr-utf8", "arr-byte", "dep", "dep-arr", "delim-dep", "arr-void", "varr-dep",
          "svc-elem"]
_AGGS = ["struct", "union", "struct-dep", "union-dep", "delim", "delim-union", "delim-dep", "arr", "varr", "svc"]
_AGG_CASES = [{"elem": e, "agg": a} for e in _ELEMS for a in _AGGS]
_gen_agg = _indexed(_AGG_CASES, lambda rng, i: {"elem": rng.choice(_ELEMS), "agg": rng.choice(_AGGS)})


def _native_comp(cls, name, dep, hps=False, attrs=None):
    from pathlib import Path
    from pydsdl import _serializable as S

    u8 = S.UnsignedIntegerType(8, S.PrimitiveType.CastMode.SATURATED)
    attrs = [S.Field(u8, "a"), S.Field(u8, "b")] if attrs is None else attrs
    return cls(name=name, version=S.Version(1, 0), attributes=attrs, deprecated=dep, fixed_port_id=None,
               source_file_path=Path("ns/%s.1.0.dsdl" % name.split(".")[1]), has_parent_service=hps)


def _native_service():
    from pydsdl import _serializable as S

    return S.ServiceType(_native_comp(S.StructureType, "ns.Svc.Request", False, True),
                         _native_comp(S.StructureType, "ns.Svc.Response", False, True), None)


def _native_elem(k):
    from pydsdl import _serializable as S

    if k == "dep":
        return _native_comp(S.StructureType, "ns.Dep", True)
    if k == "dep-arr":
        return S.FixedLengthArrayType(_native_comp(S.StructureType, "ns.Dep", True), 2)
    if k == "varr-dep":
        return S.VariableLengthArrayType(S.FixedLengthArrayType(_native_comp(S.UnionType, "ns.Dep", True), 2), 3)
    if k == "delim-dep":
        return S.DelimitedType(_native_comp(S.StructureType, "ns.Dep", True), 64)
    if k == "arr-void":
        return S.FixedLengthArrayType(S.VoidType(3), 2)
    if k == "svc-elem":
        return _native_service()
    return _mk_simple_type(k)


def _native_agg(k):
    from pydsdl import _serializable as S

    u8 = S.UnsignedIntegerType(8, S.PrimitiveType.CastMode.SATURATED)
    if k in ("struct", "struct-dep"):
        return _native_comp(S.StructureType, "ns.Agg", k.endswith("dep"))
    if k in ("union", "union-dep"):
        return _native_comp(S.UnionType, "ns.Agg", k.endswith("dep"))
    if k in ("delim", "delim-dep"):
        return S.DelimitedType(_native_comp(S.StructureType, "ns.Agg", k.endswith("dep")), 64)
    if k == "delim-union":
        return S.DelimitedType(_native_comp(S.UnionType, "ns.Agg", False), 64)
    if k == "arr":
        return S.FixedLengthArrayType(u8, 3)
    if k == "varr":
        return S.VariableLengthArrayType(u8, 3)
    return _native_service()


def _build_agg_for(classes=None):
    def build(desc):
        t, a = _native_elem(desc["elem"]), _native_agg(desc["agg"])
        if classes is not None and type(t).__name__ not in classes:
            raise ValueError("not a receiver of this override")  # skipped by the suite
        return (lambda: t._check_aggregation(a)), {"self": t, "aggregate": a}

    return build


_build_agg = _build_agg_for()

_REG_IDS = [0, 255, 256, 383, 384, 511, 512, 6143, 6144, 7167, 7168, 8191, 8192]
_REG_NS = ["uavcan", "cyphal", " uavcan ", "vendor", "Uavcan", ""]
_gen_reg = _indexed([{"id": i_, "ns": n} for n in _REG_NS for i_ in _REG_IDS], lambda rng, i: {"id": rng.randrange(0, 9000), "ns": rng.choice(_REG_NS)})


def _build_reg(fn):
    def build(desc):
        from pydsdl import _port_id_ranges as R

        return (lambda: getattr(R, fn)(desc["id"], desc["ns"])), {"regulated_id": desc["id"], "root_namespace": desc["ns"]}

    return build


# ---- CompositeType.__init__: the base constructor alone, on an uninitialised instance of each concrete class
def _A(kind, type_, name=""):
    return [kind, type_, name]


_BASE = {"cls": "StructureType", "name": "ns.T", "ver": [1, 0], "attrs": [], "dep": False, "fpid": None, "path": "ns/T.1.0.dsdl",
         "hps": False}


def _c(**kw):
    d = dict(_BASE)
    d.update(kw)
    return d


_F, _K, _P = "field", "const", "pad"
_COMPOSITE_CASES = [
    # attribute-name uniqueness across kinds (field / constant / padding), both orders, several paddings
    _c(attrs=[_A(_F, "i16", "x"), _A(_K, "u8", "x")]),
    _c(attrs=[_A(_K, "u8", "x"), _A(_F, "i16", "x")]),
    _c(attrs=[_A(_F, "u8", "x"), _A(_F, "u8", "x")]),
    _c(attrs=[_A(_K, "u8", "X"), _A(_K, "u8", "X")]),
    _c(attrs=[_A(_F, "u8", "x"), _A(_P, "void"), _A(_K, "u8", "x")]),
    _c(attrs=[_A(_P, "void"), _A(_P, "void")]),
    _c(attrs=[_A(_P, "void"), _A(_F, "u8", "x"), _A(_P, "void"), _A(_K, "u8", "y"), _A(_P, "void")]),
    _c(attrs=[_A(_F, "u8", "x"), _A(_K, "u8", "X")]),                       # names differ by case only: allowed
    _c(attrs=[_A(_F, "u8", "a"), _A(_F, "u8", "b"), _A(_K, "u8", "c"), _A(_F, "u8", "a")]),
    _c(cls="UnionType", attrs=[_A(_F, "u8", "x"), _A(_F, "i16", "y"), _A(_K, "u8", "y")]),
    _c(cls="ServiceType", attrs=[_A(_F, "u8", "request"), _A(_K, "u8", "request")]),
    _c(attrs=[]),
    # port-ID bounds per kind
    _c(fpid=8191), _c(fpid=8192), _c(fpid=0), _c(fpid=-1), _c(fpid=511), _c(fpid=512),
    _c(cls="ServiceType", fpid=511), _c(cls="ServiceType", fpid=512), _c(cls="ServiceType", fpid=0), _c(cls="ServiceType", fpid=-1),
    _c(cls="UnionType", fpid=8192, attrs=[_A(_F, "u8", "a"), _A(_F, "u8", "b")]),
    # version bounds
    _c(ver=[0, 0]), _c(ver=[0, 1]), _c(ver=[255, 255]), _c(ver=[256, 0]), _c(ver=[0, 256]), _c(ver=[-1, 1]), _c(ver=[1, -1]),
    _c(ver=[255, 0], path="ns/T.255.0.dsdl"),
    # names: empty, no namespace, length 255 / 256, invalid / reserved components, directory mismatch
    _c(name=""), _c(name="  "), _c(name="T"), _c(name="ns."), _c(name=".T"), _c(name="ns..T", path="ns/x/T.1.0.dsdl"),
    _c(name="ns.true"), _c(name="ns.\u212a"), _c(name="ns.0T"), _c(name="uint8.T", path="uint8/T.1.0.dsdl"),
    _c(name=" ns.T "), _c(name="ns." + "T" * 252), _c(name="ns." + "T" * 253),
    _c(name="ns.T", path="other/T.1.0.dsdl"), _c(name="ns.sub.T", path="ns/sub/T.1.0.dsdl"), _c(name="ns.sub.T", path="ns/T.1.0.dsdl"),
    _c(name="ns.sub.T", path="x/sub/T.1.0.dsdl"), _c(name="ns.T", path="ns.old/T.1.0.dsdl"),
    _c(name="ns.Svc.Request", path="ns/Svc.1.0.dsdl", hps=True), _c(name="ns.Svc.Request", path="other/Svc.1.0.dsdl", hps=True),
    _c(name="ns.Svc.Request", path="ns/Svc/Request.1.0.dsdl", hps=True),
    # aggregation: void / utf8 / byte per aggregate kind, deprecation (also through arrays / delimited wrappers), service
    _c(attrs=[_A(_P, "void")]), _c(cls="UnionType", attrs=[_A(_F, "u8", "a"), _A(_P, "void")]),
    _c(cls="ServiceType", attrs=[_A(_P, "void")]),
    _c(attrs=[_A(_F, "utf8", "s")]), _c(attrs=[_A(_F, "byte", "b")]), _c(attrs=[_A(_F, "varr-utf8", "s")]),
    _c(attrs=[_A(_F, "arr-byte", "b")]), _c(attrs=[_A(_F, "arr-void", "v")]),
    _c(attrs=[_A(_F, "dep", "d")]), _c(attrs=[_A(_F, "dep", "d")], dep=True), _c(attrs=[_A(_F, "dep-arr", "d")]),
    _c(attrs=[_A(_F, "varr-dep", "d")]), _c(attrs=[_A(_F, "delim-dep", "d")]), _c(attrs=[_A(_F, "delim-dep", "d")], dep=True),
    _c(attrs=[_A(_F, "svc-elem", "s")]), _c(cls="UnionType", attrs=[_A(_F, "u8", "a"), _A(_F, "svc-elem", "s")]),
    _c(attrs=[_A(_K, "u8", "C"), _A(_F, "dep", "d")], dep=False),
]


def _rnd_composite(rng, i):
    names = ["x", "y", "X", "a", "b"]
    attrs = []
    for _ in range(rng.choice([0, 1, 2, 3, 4])):
        k = rng.choice([_F, _F, _K, _P])
        attrs.append(_A(k, "void") if k == _P else _A(k, rng.choice(["u8", "i16"]) if k == _K else rng.choice(["u8", "i16", "arr", "dep"]),
                                                     rng.choice(names)))
    return _c(cls=rng.choice(["StructureType", "UnionType", "ServiceType"]), attrs=attrs, dep=rng.random() < 0.3,
              fpid=rng.choice([None, None, 0, 511, 512, 8191, 8192]), ver=[rng.choice([0, 1, 255, 256]), rng.choice([0, 1, 255, 256])])


_gen_composite = _indexed(_COMPOSITE_CASES, _rnd_composite)


def _native_attr(a):
    from pydsdl import _serializable as S
    from pydsdl import _expression as X

    kind, t, name = a
    if t == "i16":
        ty = S.SignedIntegerType(16, S.PrimitiveType.CastMode.SATURATED)
    else:
        ty = _native_elem(t)
    if kind == _P:
        return S.PaddingField(ty)
    if kind == _K:
        return S.Constant(ty, name, X.Rational(1))
    return S.Field(ty, name)


def _build_composite(desc):
    from pathlib import Path
    from pydsdl import _serializable as S

    cls = getattr(S, desc["cls"])
    attrs = [_native_attr(a) for a in desc["attrs"]]
    obj = object.__new__(cls)
    obj._deprecated = bool(desc["dep"])  # what the aggregation rules read of the aggregate, for the pre-call evaluation
    kw = dict(name=desc["name"], version=S.Version(*desc["ver"]), attributes=attrs, deprecated=desc["dep"],
              fixed_port_id=desc["fpid"], source_file_path=Path(desc["path"]), has_parent_service=desc["hps"])

    def call():
        S.CompositeType.__init__(obj, **kw)
        return obj

    ns = dict(kw, doc="")
    ns["self"] = obj
    return call, ns


# ---- _make_composite / finalize on real builders
_MODES = ["none", "sealed", "ext0", "ext8", "ext12", "ext16", "ext64"]
_MC_CASES = [{"mode": m, "union": u, "nfields": n} for m in _MODES for u in (False, True) for n in (0, 1, 2)]


def _native_schema(mode, union, nfields):
    from pydsdl import _serializable as S
    from pydsdl import _data_schema_builder as B

    b = B.DataSchemaBuilder()
    if union:
        b.make_union()
    u8 = S.UnsignedIntegerType(8, S.PrimitiveType.CastMode.SATURATED)
    for k in range(nfields):
        b.add_field(S.Field(u8, "f%d" % k))
    if mode == "sealed":
        b.set_serialization_mode(B.SealedSerializationMode())
    elif mode.startswith("ext"):
        b.set_serialization_mode(B.DelimitedSerializationMode(int(mode[3:])))
    return b


def _build_make_composite(desc):
    from pathlib import Path
    from pydsdl import _serializable as S
    from pydsdl._data_type_builder import DataTypeBuilder

    b = _native_schema(desc["mode"], desc["union"], desc["nfields"])
    kw = dict(builder=b, name="ns.T", version=S.Version(1, 0), deprecated=False, fixed_port_id=None,
              source_file_path=Path("ns/T.1.0.dsdl"), has_parent_service=False)
    return (lambda: DataTypeBuilder._make_composite(**kw)), dict(kw)


_gen_make_composite = _indexed(_MC_CASES, lambda rng, i: None)

_FIN_CASES = [{"ns": ns, "fpid": p, "svc": svc, "allow": allow, "mode": "sealed", "mode2": "sealed"}
              for allow in (False, True) for svc in (False, True) for ns in ("uavcan", "cyphal", "vendor")
              for p in ([None, 255, 256, 383, 384, 511, 512] if svc else [None, 6143, 6144, 7167, 7168, 8191, 8192])]
_FIN_CASES = _FIN_CASES[:42] + [
    {"ns": "vendor", "fpid": None, "svc": False, "allow": False, "mode": "none", "mode2": "sealed"},
    {"ns": "vendor", "fpid": None, "svc": True, "allow": False, "mode": "sealed", "mode2": "none"},
    {"ns": "vendor", "fpid": None, "svc": True, "allow": False, "mode": "none", "mode2": "sealed"},
    {"ns": "vendor", "fpid": None, "svc": True, "allow": False, "mode": "ext64", "mode2": "sealed"},
] + _FIN_CASES[42:]
_gen_finalize = _indexed(_FIN_CASES, lambda rng, i: None)


def _build_finalize(desc):
    from pathlib import Path
    from pydsdl import _serializable as S
    from pydsdl._data_type_builder import DataTypeBuilder
    from pydsdl._dsdl import ReadableDSDLFile

    base = ("%d." % desc["fpid"] if desc["fpid"] is not None else "") + "T.1.0.dsdl"

    class _Def(ReadableDSDLFile):  # a definition object with exactly the attributes finalize reads
        full_name = desc["ns"] + ".T"
        name_components = [desc["ns"], "T"]
        short_name = "T"
        full_namespace = desc["ns"]
        root_namespace = desc["ns"]
        text = ""
        version = S.Version(1, 0)
        fixed_port_id = desc["fpid"]
        has_fixed_port_id = desc["fpid"] is not None
        file_path = Path(desc["ns"]) / base
        root_namespace_path = Path(desc["ns"])
        composite_type = None

        def read(self, *a, **k):  # pragma: no cover
            raise NotImplementedError

    d = _Def()
    b = DataTypeBuilder(d, [], [], lambda line, text: None, desc["allow"])
    b._structs = [_native_schema(desc["mode"], False, 1)] + ([_native_schema(desc["mode2"], False, 1)] if desc["svc"] else [])
    return (lambda: b.finalize()), {"self": b}


NATIVE.add("pydsdl._serializable._name.check_name", _gen_name, _build_check_name)
NATIVE.add(ATTRIBUTE + ".__init__", _gen_attr, _build_attr("Field"))
NATIVE.add(PADDING + ".__init__", _gen_padding, _build_padding)
NATIVE.add(SIGNED_T + ".__init__", _gen_width, _build_signed)
NATIVE.add(UNSIGNED_T + ".__init__", _gen_width, _build_width("UnsignedIntegerType"))
NATIVE.add(FLOAT_T + ".__init__", _gen_width, _build_width("FloatType"))
NATIVE.add(VOID_T + ".__init__", _gen_width, _build_void)
NATIVE.add(SER + "_array.FixedLengthArrayType.__init__", _gen_cap, _build_array("FixedLengthArrayType"))
NATIVE.add(SER + "_array.VariableLengthArrayType.__init__", _gen_cap, _build_array("VariableLengthArrayType"))
NATIVE.add(SERIALIZABLE + "._check_aggregation@dynamic", _gen_agg, _build_agg)
# the same cases under the name of every override, so that the escalation run of an undecided override finds them
for _q, _classes in ((PRIMITIVE, ["BooleanType", "SignedIntegerType", "UnsignedIntegerType", "FloatType"]), (BYTE_T, ["ByteType"]),
                     (UTF8_T, ["UTF8Type"]), (VOID_T, ["VoidType"]), (ARRAY, ["FixedLengthArrayType", "VariableLengthArrayType"]),
                     (COMPOSITE, ["StructureType", "UnionType"]), (DELIMITED, ["DelimitedType"]), (SERVICE, ["ServiceType"])):
    NATIVE.add(_q + "._check_aggregation", _gen_agg, _build_agg_for(_classes))
NATIVE.add(COMPOSITE + ".__init__", _gen_composite, _build_composite)
NATIVE.add(DTB + "._make_composite", _gen_make_composite, _build_make_composite)
NATIVE.add(PIR + "is_valid_regulated_subject_id", _gen_reg, _build_reg("is_valid_regulated_subject_id"))
NATIVE.add(PIR + "is_valid_regulated_service_id", _gen_reg, _build_reg("is_valid_regulated_service_id"))


# ================================================================================================ C05-4 directive handlers
# Proved in specs/c03.py with two-sided rules (reused, not restated; "C05" is added to their props here so that the C05 run
# re-verifies them against the name / attribute contracts of this module):
#   on_directive            InvalidDirectiveError iff unknown directive name, or @sealed/@extent when the section already has
#                           a serialization mode (exactly one of them per section), @sealed with / @extent without an
#                           expression or with a non-rational one, @union / @deprecated with an expression, duplicated, or
#                           after the first attribute of the section, @deprecated in the response section, @assert without
#                           a boolean; AssertionCheckFailureError iff the asserted boolean is false
#   on_field / on_constant / on_padding_field   InvalidDirectiveError iff the section's mode is already delimited
#                           (@extent only after the last attribute)
#   on_service_response_marker                  InvalidDefinitionError iff there are two sections already
C03_HANDLERS = [DTB + ".on_directive", DTB + ".on_field", DTB + ".on_constant", DTB + ".on_padding_field",
                DTB + ".on_service_response_marker"]
for _q in C03_HANDLERS:
    if "C05" not in REG.contracts[_q].props:
        REG.contracts[_q].props.append("C05")

RDF = c03.RDF
DSDLFILE = "pydsdl._dsdl.DSDLFile"


def _def_ghost(name, sort):
    def value(d):
        if smt():
            return _eng().uf("ghost!definition!" + name, RefSort, sort)(d.ref)
        return getattr(d, name)

    return value


DEF_NAME = _def_ghost("full_name", z3.StringSort())
DEF_MAJOR = _def_ghost("major", z3.IntSort())
DEF_MINOR = _def_ghost("minor", z3.IntSort())


def _def_iface(member, kind, post):
    for cls in (DSDLFILE, RDF):
        q = cls + "." + member
        if ("pydsdl." + q if not q.startswith("pydsdl.") else q) in REG.contracts:
            continue  # another specification module loaded in this process already states it

        @contract(q, props=P)
        class _DefMember:
            returns = kind
            verify = False
            assumed = ("interface: name / version / fixed port-ID of a definition are fixed attributes of the definition "
                       "object (established from the file name by DSDLDefinition.__init__: C15)")

        if post is not None:
            _DefMember.post = staticmethod(post)


_def_iface("full_name", Str, lambda s: {"the-name": EQ(s.result, DEF_NAME(s.self))})
_def_iface("version", VersionK, None)
_def_iface("fixed_port_id", Opt(Int), lambda s: {"the-port-id": _opt_same(s.result, DEF_PORT_ID(s.self))})


def DEF_PORT_ID(d):
    if smt():
        from pyvc.values import OptV

        e = _eng()
        return OptV(e.uf("ghost!definition!port!none", RefSort, z3.BoolSort())(d.ref),
                    e.uf("ghost!definition!port!val", RefSort, z3.IntSort())(d.ref))
    return d.fixed_port_id


def _opt_same(a, b):
    if smt():
        if a is None or b is None:
            return IS_NONE(a) if b is None else IS_NONE(b)
        return AND(IFF(IS_NONE(a), IS_NONE(b)), IMPLIES(NOT(IS_NONE(a)), lambda: VAL(a) == VAL(b)))
    return a == b


def ROOT_NS(t):
    """the root namespace of a composite: the first component of its full name"""
    from .names import ROOT_NAMESPACE_OF

    return ROOT_NAMESPACE_OF(t._name) if smt() else t.full_name.split(".")[0]


def _seq_eq_str(a, b):
    """two lists of strings are equal element by element"""
    if smt():
        i = z3.FreshConst(z3.IntSort(), "i")
        body = z3.Implies(z3.And(0 <= i, i < a.length), z3.Select(a.arr, i) == z3.Select(b.arr, i))
        try:
            q = z3.ForAll([i], body, patterns=[z3.Select(a.arr, i)])
        except z3.Z3Exception:
            q = z3.ForAll([i], body)
        return z3.And(a.length == b.length, q)
    return list(a) == list(b)


# ---- name accessors of CompositeType: functions of the full name (its '.'-separated components)
REG.classes["pydsdl." + COMPOSITE.replace("pydsdl.", "")].fields["_name_components"] = SeqOf(Str)  # C05/C15 processes only


def FULL_NAMESPACE(t):
    """the full namespace of a composite: its full name without the last component (ghost name of the accessor's result)"""
    if smt():
        return _eng().uf("ghost!full-namespace", RefSort, z3.StringSort())(t.ref)
    return t.full_namespace


def _repr_inv(s):
    # established by CompositeType.__init__ (post#name-components-are-the-split); the fields are never assigned again
    return {"name-components-are-the-split": _seq_eq_str(s.self._name_components, COMPONENTS(s.self._name))}


_NAME_RECEIVERS = ["StructureType", "UnionType", "DelimitedType", "ServiceType"]


@contract(COMPOSITE + ".name_components", props=P + ["C15"])
class _NameComponents:
    returns = SeqOf(Str)
    self_classes = _NAME_RECEIVERS
    definitions = _repr_inv

    def post(s):
        return {"the-components-of-the-full-name": _seq_eq_str(s.result, COMPONENTS(s.self._name))}


@contract(COMPOSITE + ".namespace_components", props=P + ["C15"])
class _NamespaceComponents:
    returns = SeqOf(Str)
    self_classes = _NAME_RECEIVERS
    definitions = _repr_inv

    def post(s):
        c = COMPONENTS(s.self._name)
        return {"all-but-the-last-component": AND(LEN(s.result) == LEN(c) - 1,
                                                  FORALL_IDX(s.result, lambda i, x: x == AT(c, i)))}


@contract(COMPOSITE + ".short_name", props=P + ["C15"])
class _ShortName:
    returns = Str
    self_classes = _NAME_RECEIVERS
    definitions = _repr_inv

    def post(s):
        c = COMPONENTS(s.self._name)
        return {"last-component": EQ(s.result, AT(c, LEN(c) - 1))}


@contract(COMPOSITE + ".root_namespace", props=P + ["C15"])
class _RootNamespace:
    returns = Str
    self_classes = _NAME_RECEIVERS
    definitions = _repr_inv

    def post(s):
        return {"first-component": EQ(s.result, ROOT_NS(s.self))}


@contract(COMPOSITE + ".full_namespace", props=P + ["C15"])
class _FullNamespace:
    """`'.'.join(namespace_components)`; at call sites the result is named FULL_NAMESPACE(self)."""
    returns = Str
    self_classes = _NAME_RECEIVERS
    definitions = _repr_inv
    value = staticmethod(lambda s: FULL_NAMESPACE(s.self))

    def post(s):
        from .names import IS_NAMESPACE_OF

        return {"components-are-all-but-the-last": IS_NAMESPACE_OF(s.result, s.self._name)}


# ---- ServiceType.__init__
def SERVICE_PARTS_CONSISTENT(rq, rs):
    """The consistency clause of ServiceType.__init__ (an internal error otherwise): both parts live in the namespace named
    after the service, have the same version / deprecation / source file, no port-ID of their own, are marked as parts of a
    service, and are not services themselves."""
    ns = FULL_NAMESPACE(rq)
    if smt():
        pre = lambda t: z3.PrefixOf(ns, t._name)
    else:
        pre = lambda t: t.full_name.startswith(ns)
    return AND(pre(rq), pre(rs), EQ(rq._version, rs._version), NOT(ISINST(rq, "ServiceType")), NOT(ISINST(rs, "ServiceType")),
               IFF(rq._deprecated, rs._deprecated), EQ(rq._source_file_path, rs._source_file_path),
               IS_NONE(rq._fixed_port_id), IS_NONE(rs._fixed_port_id), rq._has_parent_service, rs._has_parent_service)


class _SvcView:
    """the arguments ServiceType.__init__ hands to CompositeType.__init__, for reuse of its rule predicates"""

    def __init__(self, s):
        self.name = FULL_NAMESPACE(s.request)
        self.source_file_path = s.request._source_file_path
        self.has_parent_service = False


@contract(SERVICE + ".__init__", props=P)
class _ServiceInit:
    """A service is a composite whose two attributes are its parts, named `request` and `response`; name, version,
    deprecation and source file are those of the request part; the port-ID is checked against the service-ID range by
    CompositeType.__init__ (verified above for a ServiceType receiver)."""
    params = dict(request=ObjOf(COMPOSITE), response=ObjOf(COMPOSITE), fixed_port_id=Opt(Int))
    raises = {
        "ValueError": lambda s: NOT(SERVICE_PARTS_CONSISTENT(s.request, s.response)),
        "InvalidNameError": lambda s: AND(SERVICE_PARTS_CONSISTENT(s.request, s.response), lambda: _CompositeInit.bad_name(_SvcView(s))),
        "InvalidFixedPortIDError": lambda s: PORT_ID_OUT_OF_RANGE(s.fixed_port_id, MAX_SERVICE_ID),
        "AggregationError": lambda s: OR(NOT(AGG_OK(s.request, s.self, s.request._deprecated)),
                                         NOT(AGG_OK(s.response, s.self, s.request._deprecated))),
    }
    # what __init__ does NOT establish: that the parts are named <service>.Request / <service>.Response (only
    # DataTypeBuilder.finalize names them so; ServiceType.__init__ checks a prefix relation only)
    inv_exempt = ["ServiceType.parts-name", "SerializableType.*"]

    def definitions(s):
        # instances of the definition of valid-name at the two literal attribute names
        return {"valid-name(request)": IFF(VALID_NAME("request"), VALID_NAME_RULE("request")),
                "valid-name(response)": IFF(VALID_NAME("response"), VALID_NAME_RULE("response"))}

    def pre(s):
        # the parts are complete composites: a namespace with at least ... (their own constructor checked the name)
        return {}

    def post(s):
        me, rq, rs = s.self, s.request, s.response
        attrs = me._attributes
        return {
            "parts-stored": AND(me._request_type.ref == rq.ref, me._response_type.ref == rs.ref) if smt()
            else (me._request_type is rq and me._response_type is rs),
            "two-attributes-request-response": AND(
                LEN(attrs) == 2, lambda: AND(
                    ISINST(AT(attrs, 0), "Field"), ISINST(AT(attrs, 1), "Field"),
                    EQ(AT(attrs, 0)._name, "request"), EQ(AT(attrs, 1)._name, "response"),
                    (AT(attrs, 0)._data_type.ref == rq.ref) if smt() else AT(attrs, 0)._data_type is rq,
                    (AT(attrs, 1)._data_type.ref == rs.ref) if smt() else AT(attrs, 1)._data_type is rs)),
            "name-is-the-parts-namespace": EQ(me._name, STRIP(FULL_NAMESPACE(rq))),
            "version-deprecation-of-the-parts": AND(EQ(me._version, rq._version), IFF(me._deprecated, rq._deprecated)),
            "port-id-stored": _opt_same(me._fixed_port_id, s.fixed_port_id),
            "service-id-range": NOT(PORT_ID_OUT_OF_RANGE(s.fixed_port_id, MAX_SERVICE_ID)),
            "not-a-part-itself": NOT(me._has_parent_service),
            "parts-consistent": SERVICE_PARTS_CONSISTENT(rq, rs),
        }


_SERVICE_ERRORS = {"InvalidNameError": None, "InvalidVersionError": None, "AttributeNameCollisionError": None,
                   "InvalidFixedPortIDError": None, "AggregationError": None}


def _mode_known(sec):
    m = sec._serialization_mode
    return OR(IS_NONE(m), lambda: ISINST(VAL(m), "DelimitedSerializationMode", "SealedSerializationMode"))


@contract(DTB + ".finalize", props=P)
class _Finalize:
    """Regulated port-ID ranges unless explicitly allowed; one or two sections -> message or service; a section without
    @sealed / @extent is rejected.  The regulated-range rule is stated on the accepted type (normal return); the
    exceptional direction is one-sided (raised only when unregulated IDs are not allowed) because the constructors'
    contracts of specs/c02.py do not say that the port-ID / name of the definition are the ones stored."""
    instances = c03._TWO_SECTION_INSTANCES
    cover_instances = True  # both the message and the service case must be able to return (ValueError is merely allowed)
    returns = ObjOf(COMPOSITE)
    raises = dict(_SERVICE_ERRORS, MalformedUnionError=None, InvalidExtentError=None, **{
        "MissingSerializationModeError": lambda s: OR(*[IS_NONE(sec._serialization_mode) for sec in c03.SECS(s.self)]),
        "InvalidDefinitionError": None,  # the common base class of the rule-specific errors (see _make_composite)
    })
    raises_if = {"UnregulatedFixedPortIDError": lambda s: NOT(s.self._allow_unregulated_fixed_port_id)}  # one-sided
    # ServiceType.__init__'s internal consistency error (two-sided in its own contract, `_ServiceInit`); that finalize
    # always builds consistent parts cannot be derived here: the constructor contracts used for the parts do not say
    # which name / version / flags are stored
    may_raise = ["ValueError"]

    def pre(s):
        return {"mode-is-sealed-or-delimited": AND(*[_mode_known(sec) for sec in c03.SECS(s.self)])}

    def post(s):
        r = s.result
        n = len(c03.SECS(s.self))
        return {
            "service-iff-two-sections": IFF(ISINST(r, "ServiceType"), n == 2) if smt() else (type(r).__name__ == "ServiceType") == (n == 2),
            "regulated-unless-allowed": IMPLIES(NOT(s.self._allow_unregulated_fixed_port_id), lambda: OR(
                IS_NONE(r._fixed_port_id),
                lambda: REGULATED(VAL(r._fixed_port_id), ROOT_NS(r), n == 2))),
        }

NATIVE.add(DTB + ".finalize", _gen_finalize, _build_finalize)


# effect obligations (AST, complete for what they state): no memoising decorator, no module-level state - see specs/common.py
from .common import no_hidden_state_check as _no_hidden_state_check  # noqa: E402
EXTRA_CHECKS = list(globals().get("EXTRA_CHECKS", [])) + [_no_hidden_state_check(
    ["pydsdl._serializable._name", "pydsdl._port_id_ranges", "pydsdl._serializable._serializable", "pydsdl._serializable._void"], "the static-rule checks")]
