"""
C05 - A definition is accepted if and only if it obeys the static rules of DSDL.

Each rule is a two-sided exceptional contract "raises X iff not rule" on the real function that enforces it; the rule
text is transcribed from the property statement / Specification (specs/names.py for the name rule), not from the code.
"""
import z3
from pyvc import strmodel
from pyvc.spec import contract, class_spec, loop_invariant, inline_ok, REG
from pyvc.values import Int, Bool, Str, Opt, SeqOf, ObjOf, EnumOf, Rec
from pyvc.speclib import (AND, OR, NOT, IMPLIES, IFF, ITE, EQ, IS_NONE, VAL, ISINST, AS, FORALL_IDX, EXISTS_IDX, LEN, AT,
                          smt)
from pyvc import speclib
from .common import (SERIALIZABLE, COMPOSITE, SERVICE, DELIMITED, PRIMITIVE, BOOLEAN_T, SIGNED_T, UNSIGNED_T, BYTE_T, UTF8_T,
                     FLOAT_T, VOID_T, CASTMODE, ATTRIBUTE, FIELD, PADDING, CONSTANT, SATURATED, TRUNCATED, cast_mode_ord)
from . import c12  # noqa  PrimitiveType / ArithmeticType / FloatType constructors (props include C05)
from . import c02  # noqa  ArrayType / FixedLengthArrayType / IntegerType / UnsignedIntegerType constructors (props include C05)
from .names import VALID_NAME, IS_IDENTIFIER, IS_RESERVED

strmodel.enable()

P = ["C05"]
LEVEL = "proof"

# Contracts that name C05 but whose bodies are layout proofs completed under C02 (specs/c02.py is frozen here).
VERIFIED_ELSEWHERE = {
    "pydsdl._serializable._array.VariableLengthArrayType.__init__":
        "C02 (capacity >= 1 is enforced by ArrayType.__init__, verified here; the rest of the body is the layout proof)",
    "pydsdl._serializable._composite.DelimitedType.__init__":
        "C02 (extent rules are stated in specs/c02.py `_DelimitedInit`; the body is dominated by the layout proof)",
}


# ================================================================================================ C05-2 check_name
@contract("pydsdl._serializable._name.check_name", props=P)
class _CheckName:
    """Replaces the placeholder of specs/common.py: accepted iff the Specification's name rule holds."""
    params = dict(name=Str)
    raises = {"InvalidNameError": lambda s: NOT(VALID_NAME(s.name))}

    def post(s):
        return {"accepted-only-if-identifier": IS_IDENTIFIER(s.name),
                "accepted-only-if-not-reserved": NOT(IS_RESERVED(s.name))}


# ================================================================================================ C05-1 numeric rules
@contract(VOID_T + ".__init__", props=P + ["C02"])
class _VoidInit:
    params = dict(bit_length=Int)
    raises = {"InvalidBitLengthError": lambda s: NOT(AND(1 <= s.bit_length, s.bit_length <= 64))}

    def post(s):
        return {"width": s.self._bit_length == s.bit_length}


@contract(SIGNED_T + ".__init__", props=P)
class _SignedInit:
    params = dict(bit_length=Int)
    raises = {
        # legal bit widths: 1..64, signed >= 2
        "InvalidBitLengthError": lambda s: NOT(AND(2 <= s.bit_length, s.bit_length <= 64)),
        # no truncated signed integers
        "InvalidCastModeError": lambda s: NOT(cast_ord(s.cast_mode) == SATURATED),
    }

    def post(s):
        return {"width": s.self._bit_length == s.bit_length, "cast-mode": EQ(s.self._cast_mode, s.cast_mode)}


def cast_ord(cm):
    return cm.term if smt() else cm.value


for _cls, _w, _cm in ((BOOLEAN_T, 1, SATURATED), (BYTE_T, 8, TRUNCATED), (UTF8_T, 8, TRUNCATED)):
    def _mk(cls=_cls, w=_w, cm=_cm):
        @contract(cls + ".__init__", props=P)
        class _FixedWidthInit:
            """bool / byte / utf8 have no parameters and never raise."""

            def post(s):
                return {"width": s.self._bit_length == w, "cast-mode": cast_mode_ord(s.self) == cm}

    _mk()


# ------------------------------------------------------------------------------------------------ attributes
@contract(ATTRIBUTE + ".__init__", props=P)
class _AttributeInit:
    """Replaces the placeholder of specs/c12.py (same postcondition; the name rule is now stated):
       void-typed attributes are unnamed, every other attribute has a valid name."""
    params = dict(data_type=ObjOf(SERIALIZABLE), name=Str, doc=Str)
    self_classes = ["Attribute", "Field"]
    raises = {"InvalidNameError": lambda s: ITE(ISINST(s.data_type, "VoidType"), NOT(EQ(s.name, "")), NOT(VALID_NAME(s.name)))}

    def post(s):
        return {"type": s.self._data_type.ref == s.data_type.ref if smt() else s.self._data_type is s.data_type,
                "name": EQ(s.self._name, s.name)}


@contract(PADDING + ".__init__", props=P)
class _PaddingInit:
    params = dict(data_type=ObjOf(SERIALIZABLE), doc=Str)
    raises = {"TypeParameterError": lambda s: NOT(ISINST(s.data_type, "VoidType"))}

    def post(s):
        return {"type": s.self._data_type.ref == s.data_type.ref if smt() else s.self._data_type is s.data_type,
                "unnamed": EQ(s.self._name, "")}


NOT_COVERED = []
EXPLANATION = ""
ASSUMPTIONS = []
