"""
C18 - Model objects are immutable values with a sound equality / hash contract.

Laws as obligations on the real `__eq__` / `__hash__` bodies.  Every `__eq__` is proved to *be* a symmetric formula over the
two operands (its characterisation), from which reflexivity and symmetry follow, and every `__hash__` to be a function of
values that the characterisation forces to be equal - stated once more as the explicit law `a == b => hash(a) == hash(b)`.
BitLengthSet: `D(a) = D(b) => a == b` (never reports two equal sets as different), over the C01 contracts.
Structural obligations (EXTRA checks): immutability of all model classes (no attribute store / in-place container mutation
outside __init__ except declared memo fields) and freshness of every public list-returning accessor.
Pickling is not covered.
"""
import ast
import z3
from pyvc.spec import contract, class_spec, inline_ok, REG
from pyvc.values import Int, Bool, Str, Opt, SeqOf, ObjOf, Obj, SymSet, RefSort, Frac, Sentinel
from pyvc.speclib import AND, OR, NOT, IMPLIES, IFF, ITE, EQ, IS_NONE, VAL, ISINST, AS, smt
from pyvc import speclib
from pyvc import settheory as st
from pyvc import libmodel as _libmodel


def _bi_unicodedata_normalize(self, ctx, form, s):
    """unicodedata.normalize('NFC', s): a total uninterpreted function of the string (the same assumed contract as in
    pyvc/ext_expr.py; installed here on its own because that module also re-models range / set / int for the parser code)"""
    from pyvc.values import EngineLimit
    if form != "NFC":
        raise EngineLimit("unicodedata.normalize form %r" % (form,))
    return z3.Function("str!nfc", z3.StringSort(), z3.StringSort())(Str.unwrap(s))


if not hasattr(_libmodel.Lib, "bi_unicodedata_normalize"):
    _libmodel.Lib.bi_unicodedata_normalize = _bi_unicodedata_normalize
    _libmodel.ASSUMED["unicodedata.normalize"] = "unicodedata.normalize('NFC', s) is a total uninterpreted function nfc(s) of the string"
from pyvc.settheory import modset, SETEQ, SMIN, SMAX, WFSET
from . import c01
from .c01 import D, DVAL, BLS, OPERATOR
from .common import BLS_IFACE_RAISES
from .common import SERIALIZABLE, ATTRIBUTE, CONSTANT, FIELD, PADDING, ANY, BOOLEAN_X, RATIONAL_X, STRING_X, SET_X, COMPOSITE

P = ["C18"]
LEVEL = "proof"
LEAN = list(c01.LEAN)


def HASH_OF(*components):
    """hash of a tuple of values (ASSUMED library contract: a function of the components' hashes / values)"""
    if smt():
        c = speclib.CTX
        return c.engine.lib.bi_hash(c, tuple(components))
    return hash(tuple(components))


def RESULT_IS(result, clause, otherwise):
    """`result` is the truth value of `clause()`; NotImplemented exactly when `otherwise` holds"""
    if smt():
        if isinstance(result, Sentinel):
            return otherwise
        return AND(NOT(otherwise), IFF(result, clause()))
    if result is NotImplemented:
        return bool(otherwise)
    return (not otherwise) and bool(result) == bool(clause())


# ------------------------------------------------------------------------------------------------ BitLengthSet
def bls_approx_eq(a, b):
    """the comparison BitLengthSet.__eq__ makes: equal least and greatest element and equal residues modulo 32 - symmetric
    in its operands, and implied by D(a) = D(b) because all three are functions of the denoted set"""
    return AND(SMIN(a) == SMIN(b), SMAX(a) == SMAX(b), SETEQ(modset(a, 32), modset(b, 32)))


@contract(BLS + ".__eq__", props=P)
class _BlsEq:
    instances = lambda: [{"other": ObjOf(BLS)}, {"other": Int}, {"other": c01.IntSet}]
    returns = Bool

    def pre(s):
        return {"operand-wf": WFSET(DVAL(s.other))}

    def post(s):
        a, b = D(s.self), DVAL(s.other)
        return {
            # it may only err towards equality: equal sets are never reported as different
            "equal-sets-compare-equal": IMPLIES(SETEQ(a, b), s.result) if smt() else (not SETEQ(a, b)) or bool(s.result),
            # ... and it is exactly this symmetric comparison (hence reflexive and symmetric)
            "symmetric-characterisation": IFF(s.result, bls_approx_eq(a, b)) if smt() else bool(s.result) == bool(bls_approx_eq(a, b)),
            "true-implies-same-min-max": IMPLIES(s.result, AND(SMIN(a) == SMIN(b), SMAX(a) == SMAX(b))),
        }


def bls_hash_key(d):
    return HASH_OF(SMIN(d), SMAX(d))


@contract(BLS + ".__hash__", props=P)
class _BlsHash:
    returns = Int

    def post(s):
        # a function of (min, max), which == forces to be equal: a == b => hash(a) == hash(b)
        return {"function-of-min-max": s.result == bls_hash_key(D(s.self))}


# ------------------------------------------------------------------------------------------------ SerializableType
def _uf(name, *sorts):
    return speclib.CTX.engine.uf(name, *sorts)


def TAG(t):
    """the dynamic class of an object"""
    if smt():
        return speclib.CTX.engine.tag_fn(t.ref)
    return type(t)


def STR(t):
    """str(t): the normalized DSDL form (abstract method __str__)"""
    if smt():
        return _uf("str!of", RefSort, z3.StringSort())(t.ref)
    return str(t)


def SERIALIZABLE_P(t):
    """whether `bit_length_set` is defined: exactly when the type is not a ServiceType (C02 interface contract)"""
    if smt():
        return NOT(ISINST(t, "ServiceType"))
    return type(t).__name__ != "ServiceType"


def LT(t):
    """the set that `t.bit_length_set` denotes: the ghost L(t) of specs/c02.py (the same uninterpreted function of the type
    object, `L!type`; C02 defines it per class by the Specification)"""
    if smt():
        return SymSet(st.L_uf(t.ref))
    return D(t.bit_length_set)


@contract(SERIALIZABLE + ".bit_length_set", props=P)
class _IfBls:
    """Projection of THE interface contract of SerializableType.bit_length_set (specs/c02.py _BlsIface, backed by the proofs
    of every override): the same exceptional clause (specs/common.py BLS_IFACE_RAISES) and the same `denotes-L` clause over
    the same ghost; `wf` is the part of C02's class invariant WFT(self) that C18 needs."""
    returns = ObjOf(BLS)
    verify = False
    assumed = ("projection of the C02 interface contract of SerializableType.bit_length_set (same clauses: TypeError iff "
               "ServiceType; denotes L(self)); `wf` restates the WFSET(L(self)) part of the C02 class invariant WFT")
    raises = {"TypeError": BLS_IFACE_RAISES}

    def post(s):
        return {"denotes-L": SETEQ(D(s.result), LT(s.self)), "wf": WFSET(LT(s.self))}


def types_eq(a, b):
    """SerializableType.__eq__ as a formula: same class, same normalized string form, and - where both have one - bit length
    sets that compare equal.  Symmetric in (a, b)."""
    return AND(TAG(a) == TAG(b) if smt() else type(a) is type(b), EQ(STR(a), STR(b)),
               IMPLIES(AND(SERIALIZABLE_P(a), SERIALIZABLE_P(b)), lambda: bls_approx_eq(LT(a), LT(b))))


def type_hash_key(t):
    """what SerializableType.__hash__ hashes: the string form and (min, max) of the bit length set, {0} if there is none"""
    d_min = ITE(SERIALIZABLE_P(t), SMIN(LT(t)), 0) if smt() else (t.bit_length_set.min if SERIALIZABLE_P(t) else 0)
    d_max = ITE(SERIALIZABLE_P(t), SMAX(LT(t)), 0) if smt() else (t.bit_length_set.max if SERIALIZABLE_P(t) else 0)
    if smt():
        c = speclib.CTX
        return c.engine.lib.hash_of(c, (STR(t), _RawHash(bls_hash_key_terms(d_min, d_max))))
    from pydsdl import BitLengthSet

    return hash((str(t), t.bit_length_set if SERIALIZABLE_P(t) else BitLengthSet(0)))


def bls_hash_key_terms(mn, mx):
    c = speclib.CTX
    return c.engine.lib.bi_hash(c, (mn, mx))


class _RawHash:
    """a tuple component whose hash is already known (the hash of an object with its own __hash__)"""

    def __init__(self, term):
        self.term = term


@contract(SERIALIZABLE + ".__eq__", props=P)
class _TypeEq:
    params = dict(other=ObjOf(SERIALIZABLE))
    returns = Bool
    self_classes = ["SerializableType", "ServiceType"]  # a serializable receiver and the non-serializable one

    def post(s):
        a, b = s.self, s.other
        return {
            "symmetric-characterisation": RESULT_IS(s.result, lambda: types_eq(a, b), False),
            "reflexive": IMPLIES(a.ref == b.ref, s.result) if smt() else True,
            "true-implies-same-class-and-string": RESULT_IS(
                s.result, lambda: AND(s.result, TAG(a) == TAG(b) if smt() else type(a) is type(b), EQ(STR(a), STR(b))), False),
            # the law: equal objects have equal hashes (type_hash_key is what __hash__ is proved to return)
            "equal-implies-equal-hash": IMPLIES(s.result, type_hash_key(a) == type_hash_key(b)),
        }


@contract(SERIALIZABLE + ".__hash__", props=P)
class _TypeHash:
    returns = Int
    self_classes = ["SerializableType", "ServiceType"]

    def post(s):
        return {"function-of-string-and-bls-min-max": s.result == type_hash_key(s.self)}


# ------------------------------------------------------------------------------------------------ expression values
from pyvc.values import Val

PRIMITIVE_X = "pydsdl._expression._primitive.Primitive"


@class_spec(SET_X)
class _SetXSpec:
    fields = dict(_value=Val)  # a frozenset of expression values: only compared and hashed here


def INST(a, clsname):
    """isinstance as a python bool where it is decided by the static class, else a formula"""
    e = speclib.CTX.engine
    return e.isinstance_of(speclib.CTX, a, e.class_by_name(clsname))


def _case(a, b, cls, same):
    ia, ib = INST(a, cls), INST(b, cls)
    if ia is False or ib is False:
        return False
    return AND(ia, ib, lambda: same(AS(a, cls), AS(b, cls)))


def _frac(v):
    from pyvc.values import FractionV

    return v.term if isinstance(v, FractionV) else v


def value_eq(a, b):
    """`==` between expression values (pydsdl._expression.Any): same kind and equal contained value; types compare by
    types_eq.  Symmetric in (a, b)."""
    if not smt():
        return type(a) is type(b) and a == b
    return OR(
        _case(a, b, BOOLEAN_X, lambda x, y: EQ(x._value, y._value)),
        _case(a, b, RATIONAL_X, lambda x, y: _frac(x._value) == _frac(y._value)),
        _case(a, b, STRING_X, lambda x, y: EQ(x._value, y._value)),
        _case(a, b, SET_X, lambda x, y: x._value == y._value),
        _case(a, b, SERIALIZABLE, lambda x, y: types_eq(x, y)),
    )


def value_hash_key(a):
    """what the __hash__ of an expression value returns, class by class"""
    if not smt():
        return hash(a)
    c = speclib.CTX
    lib = c.engine.lib
    cases = [
        (BOOLEAN_X, lambda x: z3.If(Bool.unwrap(x._value), 1, 0)),
        (RATIONAL_X, lambda x: lib.hash_of(c, x._value)),
        (STRING_X, lambda x: lib.hash_of(c, Str.unwrap(x._value))),
        (SET_X, lambda x: lib.hash_of(c, x._value)),
        (SERIALIZABLE, lambda x: type_hash_key(x)),
    ]
    out = z3.IntVal(0)
    for cls, fn in reversed(cases):
        g = INST(a, cls)
        if g is False:
            continue
        t = fn(AS(a, cls))
        if g is True:
            out = t
        else:
            out = z3.If(g, t, out)
    return out


def _may_be(a, clsname):
    e = speclib.CTX.engine
    cls = e.class_by_name(clsname)
    return isinstance(a, Obj) and (cls.is_subclass_of(a.cls) or a.cls.is_subclass_of(cls))


@contract(ANY + ".__eq__", props=P)
class _AnyEq:
    """Interface contract of Any.__eq__ (used where a Constant compares its value); Boolean / Rational / String / Set and
    SerializableType are each proved to satisfy their case of it below."""
    params = dict(other=ObjOf(ANY))
    returns = Bool
    verify = False
    assumed = "interface contract of the abstract Any.__eq__; every concrete override is obligated to its case"

    def post(s):
        return {"value-equality": IFF(s.result, value_eq(s.self, s.other))}


@contract(ANY + ".__hash__", props=P)
class _AnyHash:
    returns = Int
    verify = False
    assumed = "interface contract of Any.__hash__; every concrete override is obligated to its case"

    def post(s):
        return {"hash-key": s.result == value_hash_key(s.self)}


def _value_class(cls_q):
    @contract(cls_q + ".__eq__", props=P)
    class _Eq:
        params = dict(other=ObjOf(ANY))
        returns = Bool

        def post(s):
            a, b = s.self, s.other
            return {
                "value-equality": RESULT_IS(s.result, lambda: value_eq(a, b), NOT(ISINST(b, cls_q))),
                "equal-implies-equal-hash": IMPLIES(AND(ISINST(b, cls_q), lambda: value_eq(a, b)),
                                                    lambda: value_hash_key(a) == value_hash_key(b)) if smt() else True,
            }

    @contract(cls_q + ".__hash__", props=P)
    class _Hash:
        returns = Int

        def post(s):
            return {"hash-key": s.result == value_hash_key(s.self)}

    return _Eq, _Hash


for _q in (BOOLEAN_X, RATIONAL_X, STRING_X, SET_X):
    _value_class(_q)


# ------------------------------------------------------------------------------------------------ attributes
def attribute_eq(a, b):
    return AND(types_eq(a._data_type, b._data_type), EQ(a._name, b._name))


def attribute_hash_key(a):
    if smt():
        c = speclib.CTX
        return c.engine.lib.hash_of(c, (_RawHash(type_hash_key(a._data_type)), Str.unwrap(a._name)))
    return hash((a._data_type, a._name))


def constant_hash_key(a):
    if smt():
        c = speclib.CTX
        return c.engine.lib.hash_of(c, (_RawHash(type_hash_key(a._data_type)), Str.unwrap(a._name),
                                        _RawHash(value_hash_key(a._value))))
    return hash((a._data_type, a._name, a._value))


@contract(ATTRIBUTE + ".__eq__", props=P)
class _AttrEq:
    params = dict(other=ObjOf(ATTRIBUTE))
    returns = Bool
    self_classes = ["Field", "PaddingField"]

    def post(s):
        a, b = s.self, s.other
        return {"type-and-name": RESULT_IS(s.result, lambda: attribute_eq(a, b), False),
                "equal-implies-equal-hash": IMPLIES(s.result, attribute_hash_key(a) == attribute_hash_key(b))}


@contract(ATTRIBUTE + ".__hash__", props=P)
class _AttrHash:
    returns = Int
    self_classes = ["Field", "PaddingField"]

    def post(s):
        return {"hash-key": s.result == attribute_hash_key(s.self)}


@contract(CONSTANT + ".__eq__", props=P)
class _ConstEq:
    params = dict(other=ObjOf(CONSTANT))
    returns = Bool

    def post(s):
        a, b = s.self, s.other
        return {"type-name-and-value": RESULT_IS(s.result, lambda: AND(attribute_eq(a, b), value_eq(a._value, b._value)), False),
                "equal-implies-equal-hash": IMPLIES(s.result, constant_hash_key(a) == constant_hash_key(b))}


@contract(CONSTANT + ".__hash__", props=P)
class _ConstHash:
    returns = Int

    def post(s):
        return {"hash-key": s.result == constant_hash_key(s.self)}


# ------------------------------------------------------------------------------------------------ structural obligations
MODEL_MODULES = ["pydsdl._serializable._serializable", "pydsdl._serializable._primitive", "pydsdl._serializable._void",
                 "pydsdl._serializable._array", "pydsdl._serializable._composite", "pydsdl._serializable._attribute",
                 "pydsdl._expression._any", "pydsdl._expression._primitive", "pydsdl._expression._container",
                 "pydsdl._bit_length_set._bit_length_set", "pydsdl._bit_length_set._symbolic"]
# lazily filled caches: the only fields that may be assigned after construction (their transparency is proved under C01:
# class invariant of MemoizationOperator)
MEMO_FIELDS = {"MemoizationOperator": {"_min", "_max", "_modula", "_expansion"}}
MUTATORS = {"append", "extend", "insert", "remove", "pop", "clear", "sort", "reverse", "add", "discard", "update",
            "setdefault", "popitem", "__setitem__", "__delitem__"}


def _classes(eng, modules):
    for m in modules:
        mi = eng.repo.modules[m]
        todo = [(m, st) for st in mi.tree.body if isinstance(st, ast.ClassDef)]
        while todo:
            prefix, cd = todo.pop()
            yield m, prefix + "." + cd.name, cd
            todo.extend((prefix + "." + cd.name, sub) for sub in cd.body if isinstance(sub, ast.ClassDef))


def _self_rooted(e, selfname):
    """`self.x`, `self.x[...]`, `self.x.y` ... -> the first attribute name after self, else None"""
    chain = []
    while isinstance(e, (ast.Attribute, ast.Subscript)):
        if isinstance(e, ast.Attribute):
            chain.append(e.attr)
        e = e.value
    if isinstance(e, ast.Name) and e.id == selfname and chain:
        return chain[-1]
    return None


def immutability_scan(eng, tier, seed):
    """Model objects are immutable values: in every class of the model modules no method other than __init__ assigns or
    deletes an attribute of `self`, stores through a subscript of a field, or calls an in-place mutator on a field -
    except the declared memo fields; and no code of these modules stores into an attribute of *another* object."""
    obligations, details = [], {}
    for m, q, cd in _classes(eng, MODEL_MODULES):
        memo = MEMO_FIELDS.get(cd.name, set())
        bad = []
        methods = {x.name: x for x in cd.body if isinstance(x, ast.FunctionDef)}

        def self_calls(fn):
            if not fn.args.args:
                return set()
            me = fn.args.args[0].arg
            return {n.func.attr for n in ast.walk(fn) if isinstance(n, ast.Call) and isinstance(n.func, ast.Attribute)
                    and isinstance(n.func.value, ast.Name) and n.func.value.id == me}

        # construction helpers: private methods that are called (on self) only from __init__ or from other construction
        # helpers - e.g. a step of __init__ extracted by a refactoring; they are part of the constructor
        init_helpers = set()
        if "__init__" in methods:
            grow = True
            while grow:
                grow = False
                ctor = {"__init__"} | init_helpers
                for name, fn in methods.items():
                    private = name.startswith("_") and not (name.startswith("__") and name.endswith("__"))
                    if not private or name in init_helpers:
                        continue
                    callers = {m for m, f in methods.items() if name in self_calls(f)}
                    if callers and callers <= ctor:
                        init_helpers.add(name)
                        grow = True
        for fn in [x for x in cd.body if isinstance(x, ast.FunctionDef)]:
            if not fn.args.args:
                continue
            selfname = fn.args.args[0].arg
            is_static = any(isinstance(d, ast.Name) and d.id in ("staticmethod", "classmethod") for d in fn.decorator_list)
            in_init = fn.name == "__init__" or fn.name in init_helpers
            for n in ast.walk(fn):
                targets = []
                if isinstance(n, ast.Assign):
                    targets = list(n.targets)
                elif isinstance(n, (ast.AugAssign, ast.AnnAssign)):
                    targets = [n.target] if not (isinstance(n, ast.AnnAssign) and n.value is None) else []
                elif isinstance(n, ast.Delete):
                    targets = list(n.targets)
                elif isinstance(n, (ast.For, ast.comprehension)):
                    targets = [n.target]
                elif isinstance(n, ast.withitem) and n.optional_vars is not None:
                    targets = [n.optional_vars]
                flat = []
                while targets:
                    t = targets.pop()
                    if isinstance(t, (ast.Tuple, ast.List)):
                        targets.extend(t.elts)
                    elif isinstance(t, ast.Starred):
                        targets.append(t.value)
                    else:
                        flat.append(t)
                for t in flat:
                    if isinstance(t, (ast.Attribute, ast.Subscript)):
                        root = _self_rooted(t, selfname) if not is_static else None
                        if root is None:
                            if isinstance(t, ast.Attribute):
                                bad.append("%s line %d: store into an attribute of another object: %s" % (fn.name, t.lineno, ast.unparse(t)))
                            elif not isinstance(t.value, ast.Name):
                                bad.append("%s line %d: store through %s" % (fn.name, t.lineno, ast.unparse(t)))
                        elif not in_init and root not in memo:
                            bad.append("%s line %d: %s is modified outside __init__" % (fn.name, t.lineno, ast.unparse(t)))
                if isinstance(n, ast.Call):
                    f = n.func
                    if isinstance(f, ast.Name) and f.id in ("setattr", "delattr"):
                        bad.append("%s line %d: %s(...)" % (fn.name, n.lineno, f.id))
                    if isinstance(f, ast.Attribute) and f.attr in MUTATORS and not is_static:
                        root = _self_rooted(f.value, selfname)
                        if root is not None and not in_init and root not in memo:
                            bad.append("%s line %d: in-place %s on field %s outside __init__" % (fn.name, n.lineno, f.attr, root))
                if isinstance(n, ast.Attribute) and n.attr == "__dict__":
                    bad.append("%s line %d: __dict__ access" % (fn.name, n.lineno))
        sq = q.replace("pydsdl.", "")
        if bad:
            details[sq] = bad
        obligations.append({"name": "%s/immutable#no-mutation-outside-init" % sq, "ok": not bad, "detail": "; ".join(bad),
                            "function": q})
    return {"check": "immutability-scan", "obligations": obligations, "violations": [], "classes": len(obligations),
            "memo_fields": {k: sorted(v) for k, v in MEMO_FIELDS.items()}, "details": details}


FRESH_MODULES = ["pydsdl._serializable._composite", "pydsdl._serializable._array", "pydsdl._serializable._attribute",
                 "pydsdl._serializable._primitive", "pydsdl._serializable._serializable", "pydsdl._serializable._void",
                 "pydsdl._expression._container", "pydsdl._expression._primitive"]


def _returns_list(fn):
    if fn.returns is None:
        return False
    a = ast.unparse(fn.returns).replace("typing.", "")
    return a.startswith(("List[", "list[")) or a in ("list", "List")


def accessor_freshness(eng, tier, seed):
    """Every public list-returning accessor of the model classes returns a list that the caller may mutate freely: each
    returned expression is a list display / comprehension / list(...) / sorted(...) / slice copy / concatenation, a local
    that only ever holds such values, or the value of another accessor of this table."""
    accessors = {}
    for m, q, cd in _classes(eng, FRESH_MODULES):
        for fn in [x for x in cd.body if isinstance(x, ast.FunctionDef)]:
            if _returns_list(fn) and not fn.name.startswith("_"):
                accessors[q + "." + fn.name] = fn
    names = {q.split(".")[-1] for q in accessors}

    def fresh(e, fn):
        if isinstance(e, (ast.List, ast.ListComp)):
            return True
        if isinstance(e, ast.Call) and isinstance(e.func, ast.Name) and e.func.id in ("list", "sorted"):
            return True
        if isinstance(e, ast.Subscript) and isinstance(e.slice, ast.Slice):
            return True
        if isinstance(e, ast.BinOp) and isinstance(e.op, ast.Add):
            return True
        if isinstance(e, ast.Attribute) and e.attr in names:
            return True  # another accessor of the table (fresh by its own obligation)
        if isinstance(e, ast.IfExp):
            return fresh(e.body, fn) and fresh(e.orelse, fn)
        if isinstance(e, ast.Name):
            assigns = [n.value for n in ast.walk(fn) if isinstance(n, ast.Assign)
                       and any(isinstance(t, ast.Name) and t.id == e.id for t in n.targets)]
            assigns += [n.value for n in ast.walk(fn) if isinstance(n, ast.AnnAssign) and n.value is not None
                        and isinstance(n.target, ast.Name) and n.target.id == e.id]
            is_param = e.id in [a.arg for a in fn.args.args + fn.args.kwonlyargs]
            return bool(assigns) and not is_param and all(fresh(v, fn) for v in assigns)
        return False

    obligations = []
    for q, fn in sorted(accessors.items()):
        rets = [n for n in ast.walk(fn) if isinstance(n, ast.Return) and n.value is not None]
        raises_only = not rets
        bad = ["line %d: returns `%s`, which is not a new list" % (r.lineno, ast.unparse(r.value)) for r in rets
               if not fresh(r.value, fn)]
        sq = q.replace("pydsdl.", "")
        obligations.append({"name": "%s/fresh#returns-new-list" % sq, "ok": not bad, "detail": "; ".join(bad), "function": q,
                            "note": "never returns" if raises_only else ""})
    return {"check": "accessor-freshness", "obligations": obligations, "violations": [], "accessors": sorted(accessors)}


def accessor_probe(eng, tier, seed):
    """Bounded native probe (never counted): mutate what every list-returning accessor of a real composite returns and
    compare the object's observable state before and after."""
    import copy
    from pathlib import Path
    from pydsdl import _serializable as S

    u8 = S.UnsignedIntegerType(8, S.PrimitiveType.CastMode.TRUNCATED)
    t = S.StructureType(name="ns.sub.Foo", version=S.Version(1, 0),
                        attributes=[S.Field(u8, "a"), S.PaddingField(S.VoidType(8)), S.Constant(u8, "C", __import__("pydsdl")._expression.Rational(1))],
                        deprecated=False, fixed_port_id=None, source_file_path=Path("ns/sub/Foo.1.0.dsdl"), has_parent_service=False)
    objs = [t, S.DelimitedType(t, 64)]
    violations = []
    for o in objs:
        for name in ("attributes", "fields", "fields_except_padding", "constants", "name_components", "namespace_components"):
            before = (str(o), o.full_name, o.short_name, o.full_namespace, [str(a) for a in o.attributes], o.name_components[:],
                      o.namespace_components[:])
            lst = getattr(o, name)
            lst.append("X")
            lst.reverse()
            after = (str(o), o.full_name, o.short_name, o.full_namespace, [str(a) for a in o.attributes], o.name_components[:],
                     o.namespace_components[:])
            if before != after:
                violations.append({"name": "_serializable._composite.%s.%s/native#mutation-of-result-changes-object" % (type(o).__name__, name),
                                   "detail": "appending to the returned list changed the object",
                                   "concrete": {"object": repr(type(o).__name__), "accessor": name,
                                                "before": repr(before), "after": repr(after)}})
                break
    return {"check": "accessor probe (bounded, not counted)", "bound": "2 composites x 6 accessors", "violations": violations}


EXTRA_CHECKS = [immutability_scan, accessor_freshness, accessor_probe]
NOT_COVERED = []
EXPLANATION = ""
ASSUMPTIONS = []


# ------------------------------------------------------------------------------------------------ native harness
from pyvc.native import NativeSuite
from .c01 import _gen_tree, _build_tree

NATIVE = NativeSuite()
NATIVE_BUDGET = {"quick": 120, "thorough": 2000}


def _gen_bls_pair(rng, i):
    k = i % 4
    if k == 0:      # the same set written as two different operator trees
        base = sorted(rng.sample(range(0, 40), rng.choice([1, 2, 3])))
        n = rng.choice([1, 2, 3])
        return {"a": ["rep", n, ["leaf", base]], "b": ["cat", [["leaf", base] for _ in range(n)]] if n else ["leaf", [0]],
                "form": "bls"}
    if k == 1:      # same min, max and residues modulo 32, different interior
        lo, mid, hi = rng.choice([0, 8, 3]), rng.choice([16, 5, 24]), rng.choice([64, 96, 128])
        return {"a": ["leaf", [lo, lo + mid, lo + hi]], "b": ["leaf", [lo, lo + mid + 32, lo + hi]], "form": rng.choice(["bls", "set"])}
    if k == 2:
        t = _gen_tree(rng, 2)
        return {"a": t, "b": t, "form": rng.choice(["bls", "set"])}
    return {"a": _gen_tree(rng, 2), "b": _gen_tree(rng, 1), "form": rng.choice(["bls", "set", "int"]), "n": rng.choice([0, 8, 16])}


def _bls_pair(desc):
    from pydsdl import BitLengthSet

    a = BitLengthSet(_build_tree(desc["a"]))
    if desc["form"] == "int":
        b = desc["n"]
    elif desc["form"] == "set":
        b = set(D(_build_tree(desc["b"])).elements())
    else:
        b = BitLengthSet(_build_tree(desc["b"]))
    return a, b


NATIVE.add(BLS + ".__eq__", _gen_bls_pair, lambda d: (lambda ab: ((lambda: ab[0].__eq__(ab[1])), {"self": ab[0], "other": ab[1]}))(_bls_pair(d)))
NATIVE.add(BLS + ".__hash__", _gen_bls_pair, lambda d: (lambda ab: ((lambda: hash(ab[0])), {"self": ab[0]}))(_bls_pair(d)))


def _gen_type_desc(rng, depth=2):
    k = rng.choice(["u", "i", "f", "b", "void", "byte", "utf8"] + (["fix", "var", "struct", "union", "delim", "svc"] if depth > 0 else []))
    if k == "u":
        return ["u", rng.choice([1, 7, 8, 16, 64]), rng.choice("st")]
    if k == "i":
        return ["i", rng.choice([2, 8, 16, 64])]
    if k == "f":
        return ["f", rng.choice([16, 32, 64]), rng.choice("st")]
    if k in ("b", "byte", "utf8"):
        return [k]
    if k == "void":
        return ["void", rng.choice([1, 8, 9])]
    if k in ("fix", "var"):
        return [k, _gen_type_desc(rng, 0), rng.choice([1, 2, 8, 9])]
    if k in ("struct", "union"):
        n = rng.choice([0, 1, 2]) if k == "struct" else 2
        return [k, rng.choice(["ns.A", "ns.B"]), [[_gen_type_desc(rng, depth - 1) if depth > 1 else _gen_type_desc(rng, 0),
                                                  rng.choice(["x", "y"]) + str(j)] for j in range(n)]]
    if k == "delim":
        return ["delim", _gen_type_desc(rng, 1) if False else ["struct", rng.choice(["ns.A", "ns.B"]), [[["u", 8, "s"], "x0"]]], rng.choice([8, 64])]
    return ["svc", rng.choice(["ns.S", "ns.T"])]


def _mk_type18(d):
    from pathlib import Path
    from pydsdl import _serializable as S

    cm = lambda c: S.PrimitiveType.CastMode.SATURATED if c == "s" else S.PrimitiveType.CastMode.TRUNCATED
    k = d[0]
    if k == "u":
        return S.UnsignedIntegerType(d[1], cm(d[2]))
    if k == "i":
        return S.SignedIntegerType(d[1], S.PrimitiveType.CastMode.SATURATED)
    if k == "f":
        return S.FloatType(d[1], cm(d[2]))
    if k == "b":
        return S.BooleanType()
    if k == "byte":
        return S.ByteType()
    if k == "utf8":
        return S.UTF8Type()
    if k == "void":
        return S.VoidType(d[1])
    if k == "fix":
        return S.FixedLengthArrayType(_mk_type18(d[1]), d[2])
    if k == "var":
        return S.VariableLengthArrayType(_mk_type18(d[1]), d[2])

    def comp(cls, name, fields, parent=False):
        attrs = [S.PaddingField(_mk_type18(t)) if t[0] == "void" else S.Field(_mk_type18(t), n) for t, n in fields]
        return cls(name=name, version=S.Version(1, 0), attributes=attrs, deprecated=False, fixed_port_id=None,
                   source_file_path=Path(name.replace(".", "/") + ".1.0.dsdl"), has_parent_service=parent)

    if k == "struct":
        return comp(S.StructureType, d[1], d[2])
    if k == "union":
        return comp(S.UnionType, d[1], [[t, n] for t, n in d[2] if t[0] != "void"] or [[["u", 8, "s"], "a"], [["u", 8, "s"], "b"]])
    if k == "delim":
        return S.DelimitedType(_mk_type18(d[1]), d[2])
    if k == "svc":
        return S.ServiceType(comp(S.StructureType, d[1] + ".Request", [], True), comp(S.StructureType, d[1] + ".Response", [], True), None)
    raise ValueError(k)


def _gen_type_pair(rng, i):
    a = _gen_type_desc(rng)
    b = a if i % 3 == 0 else _gen_type_desc(rng)
    return {"a": a, "b": b}


def _type_pair(desc):
    return _mk_type18(desc["a"]), _mk_type18(desc["b"])


def _call_pair(make, method):
    def build(desc):
        a, b = make(desc)
        if method == "__eq__":
            return (lambda: a.__eq__(b)), {"self": a, "other": b}
        return (lambda: a.__hash__()), {"self": a}
    return build


NATIVE.add(SERIALIZABLE + ".__eq__", _gen_type_pair, _call_pair(_type_pair, "__eq__"))
NATIVE.add(SERIALIZABLE + ".__hash__", _gen_type_pair, _call_pair(_type_pair, "__hash__"))


def _gen_value(rng):
    k = rng.choice(["bool", "rat", "rat", "str", "set"])
    if k == "bool":
        return ["bool", rng.random() < 0.5]
    if k == "rat":
        return ["rat", rng.choice([0, 1, 1, 2, -3]), rng.choice([1, 1, 2])]
    if k == "str":
        return ["str", rng.choice(["", "a", "b", "1", "\u00e9", "e\u0301", "\u00e9"])]  # incl. two spellings of one NFC string
    return ["set", sorted(rng.sample([0, 1, 2, 3], rng.choice([1, 2])))]


def _mk_value18(d):
    import fractions
    from pydsdl import _expression as X

    if d[0] == "bool":
        return X.Boolean(d[1])
    if d[0] == "rat":
        return X.Rational(fractions.Fraction(d[1], d[2]))
    if d[0] == "str":
        return X.String(d[1])
    return X.Set([X.Rational(x) for x in d[1]])


def _gen_value_pair_of(kind):
    def gen(rng, i):
        for _ in range(50):
            a = _gen_value(rng)
            if a[0] == kind:
                break
        else:
            return None
        b = a if i % 3 == 0 else _gen_value(rng)
        return {"a": a, "b": b}
    return gen


for _q, _kind in ((BOOLEAN_X, "bool"), (RATIONAL_X, "rat"), (STRING_X, "str"), (SET_X, "set")):
    _mk = lambda desc: (_mk_value18(desc["a"]), _mk_value18(desc["b"]))
    NATIVE.add(_q + ".__eq__", _gen_value_pair_of(_kind), _call_pair(_mk, "__eq__"))
    NATIVE.add(_q + ".__hash__", _gen_value_pair_of(_kind), _call_pair(_mk, "__hash__"))


def _gen_attr_pair(const):
    def gen(rng, i):
        def one():
            return {"t": ["u", rng.choice([8, 16]), "s"], "n": rng.choice(["x", "y"]), "v": rng.choice([0, 1, 2])}
        a = one()
        return {"a": a, "b": a if i % 3 == 0 else one()}
    return gen


def _attr_pair(const):
    def make(desc):
        from pydsdl import _serializable as S, _expression as X

        def mk(d):
            t = _mk_type18(d["t"])
            return S.Constant(t, d["n"], X.Rational(d["v"])) if const else S.Field(t, d["n"])
        return mk(desc["a"]), mk(desc["b"])
    return make


NATIVE.add(ATTRIBUTE + ".__eq__", _gen_attr_pair(False), _call_pair(_attr_pair(False), "__eq__"))
NATIVE.add(ATTRIBUTE + ".__hash__", _gen_attr_pair(False), _call_pair(_attr_pair(False), "__hash__"))
NATIVE.add(CONSTANT + ".__eq__", _gen_attr_pair(True), _call_pair(_attr_pair(True), "__eq__"))
NATIVE.add(CONSTANT + ".__hash__", _gen_attr_pair(True), _call_pair(_attr_pair(True), "__hash__"))


# ------------------------------------------------------------------------------------------------ bounded: pickle round trip
def extra_pickle_round_trip(eng, tier, seed):
    """Bounded, native, not counted: pickling round-trips random nested type objects (and their attributes, constants with
    expression values, bit length sets) to an EQUAL object with identical string form, attributes and layout.  No contract
    reaches pickle's object-graph protocol; the structural half (model objects hold plain data: no closure / lambda /
    generator is ever stored in a field of a model class) is checked by the immutability scan above."""
    import pickle
    import random
    from specs import c02

    rng = random.Random(seed)
    violations, checked = [], 0
    n = 60 if tier == "quick" else 600
    for k in range(n):
        desc = c02._gen_type(rng, 3, big=True)
        try:
            t = c02._build_type(desc)
        except Exception:
            continue
        import signal

        def _alarm(sig, frm):
            raise TimeoutError()

        old_h = signal.signal(signal.SIGALRM, _alarm)
        signal.alarm(10)  # nothing below expands a bit length set; a case that does not finish is skipped, not judged
        try:
            for proto in (2, pickle.HIGHEST_PROTOCOL):
                u = pickle.loads(pickle.dumps(t, protocol=proto))
                ok = (u == t and t == u and hash(u) == hash(t) and str(u) == str(t) and type(u) is type(t)
                      and u.bit_length_set == t.bit_length_set and u.alignment_requirement == t.alignment_requirement)
                if ok and hasattr(t, "attributes"):
                    ok = ([str(a) for a in u.attributes] == [str(a) for a in t.attributes] and u.attributes == t.attributes
                          and u.extent == t.extent and u.full_name == t.full_name and u.version == t.version
                          and [o for _, o in u.iterate_fields_with_offsets()] == [o for _, o in t.iterate_fields_with_offsets()])
                if ok:
                    # the copy stays a value of its own: mutating a list obtained from it does not affect the original
                    if hasattr(u, "attributes"):
                        u.attributes.append(None)
                        ok = len(t.attributes) == len(u.attributes)
                checked += 1
                if not ok:
                    violations.append({"name": "native/pickle-round-trip", "concrete": {"type": desc, "protocol": proto},
                                       "detail": "unpickled object differs from the original: %s vs %s" % (u, t)})
                    break
        except TimeoutError:
            pass
        except Exception as ex:
            violations.append({"name": "native/pickle-round-trip", "concrete": {"type": desc},
                               "detail": "%s: %s" % (type(ex).__name__, str(ex)[:200])})
        finally:
            signal.alarm(0)
            signal.signal(signal.SIGALRM, old_h)
        if violations:
            break
    return {"check": "pickle round trip of random nested types (bounded, native)", "round_trips": checked, "violations": violations}


EXTRA_CHECKS = list(globals().get("EXTRA_CHECKS", [])) + [extra_pickle_round_trip]


# ------------------------------------------------------------------------------------------------ operator layer: queries leave operands alone
# "Immutable values": an analytic query on a bit length set (min / max / residues / expansion, which is what __eq__ and
# __hash__ are made of) must not change what any operand denotes - in particular not through the sets handed out by the
# memo cache of a MemoizationOperator.  The contracts are those of specs/c01.py (result against the ghost set D, frame:
# only memo fields are written, in-place mutation only of collections the method itself allocated); they are re-verified
# in this property's run so that a change which corrupts an operand's cached answers is reported under C18 as well.
for _cls18 in (c01.NULLARY, c01.PADDING, c01.CONCAT, c01.REPEAT, c01.RANGE, c01.UNION, c01.MEMO):
    for _m18 in ("modulo", "min", "max", "expand"):
        _c18 = REG.contracts.get(_cls18 + "." + _m18)
        if _c18 is not None and "C18" not in _c18.props:
            _c18.props.append("C18")

# effect obligations (AST): model objects and the functions that build / compare them keep no state outside the objects
from .common import no_hidden_state_check as _no_hidden_state_check  # noqa: E402
EXTRA_CHECKS = list(globals().get("EXTRA_CHECKS", [])) + [_no_hidden_state_check(
    ["pydsdl._bit_length_set._bit_length_set", "pydsdl._bit_length_set._symbolic", "pydsdl._serializable._serializable",
     "pydsdl._serializable._attribute", "pydsdl._serializable._composite", "pydsdl._serializable._array",
     "pydsdl._serializable._primitive", "pydsdl._serializable._void", "pydsdl._expression._any",
     "pydsdl._expression._primitive", "pydsdl._expression._container"], "the model classes")]
