"""
Native harness of the expression-layer contracts (specs/expr.py): seeded small-scope inputs on the real objects.
Used for the cross-check of the contracts against CPython, for the search of concrete failing inputs and for replay.
Bounded; never counted as proof.
"""
import fractions
import types
from pyvc.native import NativeSuite
from . import expr as E

NATIVE = NativeSuite()

_RATS = [(0, 1), (1, 1), (-1, 1), (2, 1), (3, 1), (-2, 1), (1, 2), (-1, 2), (1, 3), (7, 1), (255, 1), (-8, 1), (5, 2),
         (10 ** 400, 1), (1, 10 ** 400), (-(10 ** 400), 1), (2 ** 64, 1)]
_STRS = ["", "a", "b", "ab", "é", "é", "A"]


def _gen_rat(rng):
    n, d = rng.choice(_RATS)
    return {"k": "rat", "n": n, "d": d}


def _gen_scalar(rng, k=None):
    k = k or rng.choice(["bool", "rat", "rat", "str", "type"])
    if k == "bool":
        return {"k": "bool", "v": rng.random() < 0.5}
    if k == "rat":
        return _gen_rat(rng)
    if k == "str":
        return {"k": "str", "v": rng.choice(_STRS)}
    return {"k": "type", "n": rng.choice([8, 16])}


def _gen_set(rng, ek=None):
    ek = ek or rng.choice(["bool", "rat", "rat", "str"])
    return {"k": "set", "items": [_gen_scalar(rng, ek) for _ in range(rng.choice([1, 1, 2, 3]))]}


def _gen_any(rng, like=None):
    if like is not None and rng.random() < 0.6:
        return _gen_set(rng, like.get("ek")) if like["k"] == "set" else _gen_scalar(rng, like["k"])
    return _gen_set(rng) if rng.random() < 0.3 else _gen_scalar(rng)


def _mk(d):
    from pydsdl import _expression as X
    from pydsdl import _serializable as S

    k = d["k"]
    if k == "bool":
        return X.Boolean(d["v"])
    if k == "rat":
        return X.Rational(fractions.Fraction(d["n"], d["d"]))
    if k == "str":
        return X.String(d["v"])
    if k == "set":
        return X.Set([_mk(x) for x in d["items"]])
    if k == "type":
        return S.UnsignedIntegerType(d["n"], S.PrimitiveType.CastMode.SATURATED)
    if k == "btype":
        return S.BooleanType()
    raise ValueError(k)


_CLASS_KIND = {"Boolean": "bool", "Rational": "rat", "String": "str", "Set": "set", "Any": None}

# ---- exotic operands: enumerated FIRST (index-driven, before any random input), so that the quick budget and the runner's
# escalation on functions with an engine limit reach them.  Sets of sets, sets of types, singletons of every element class,
# mixed-sign / non-integer rationals, strings that need NFC normalisation.
_r = lambda n, d=1: {"k": "rat", "n": n, "d": d}
_s = lambda *items: {"k": "set", "items": list(items)}
_U8, _U16, _BT = {"k": "type", "n": 8}, {"k": "type", "n": 16}, {"k": "btype"}
_NFC, _NFD = {"k": "str", "v": "\u00e9"}, {"k": "str", "v": "e\u0301"}
EXOTIC_SETS = [
    _s(_s(_r(1)), _s(_r(2))),                 # {{1}, {2}}
    _s(_U8, _U16),                            # {uint8, uint16}
    _s(_BT),                                  # {bool}
    _s(_s(_r(1))),                            # {{1}}
    _s(_s(_U8)),                              # {{uint8}}
    _s({"k": "bool", "v": True}),             # singletons of every element class
    _s(_r(-1, 2)),
    _s({"k": "str", "v": "a"}),
    _s(_U8),
    _s(_r(-3), _r(5, 2), _r(0)),              # mixed sign, non-integer
    _s(_r(-1, 2), _r(3, 2)),
    _s(_NFC, _NFD),                           # two spellings of one text
    _s({"k": "bool", "v": True}, {"k": "bool", "v": False}),
]
EXOTIC_SCALARS = [_r(-1, 2), _r(5, 2), _r(-3), _r(0), _NFC, _NFD, {"k": "bool", "v": True}, _U8, _BT]
EXOTIC_ALL = EXOTIC_SETS + EXOTIC_SCALARS


def _exotic_pair(i, selves):
    """i-th pair (self, other) of selves x EXOTIC_ALL, ordered so that the first len(selves) pairs pair every self with
    itself, the next ones with each other operand in turn; None when exhausted."""
    n, m = len(selves), len(EXOTIC_ALL)
    if i < n:
        return selves[i], selves[i]
    i -= n
    if i >= n * m:
        return None
    return selves[i % n], EXOTIC_ALL[(i // n + i % n) % m]


_EXOTIC_BY_KIND = {
    "set": EXOTIC_SETS,
    "rat": [_r(-1, 2), _r(5, 2), _r(-3), _r(0)],
    "str": [_NFC, _NFD],
    "bool": [{"k": "bool", "v": True}, {"k": "bool", "v": False}],
    None: EXOTIC_ALL,
}
ONLY_INVALID_DEFINITION = "InvalidDefinitionError"  # what may leave an operator for *any* operands (C13)


def _method_case(qualname):
    """qualname = pydsdl._expression.<mod>.<Class>.<method>; parameters from the contract."""
    parts = qualname.split(".")
    clsname, meth = parts[-2], parts[-1]
    kind = _CLASS_KIND[clsname]

    def gen(rng, i):
        ex = _exotic_pair(i, _EXOTIC_BY_KIND[kind])
        if ex is not None:
            return {"self": ex[0], "other": _small_exponent(rng, ex[1]) if "power" in meth else ex[1]}
        if kind is None:
            me = _gen_any(rng)
        elif kind == "set":
            me = _gen_set(rng)
        else:
            me = _gen_scalar(rng, kind)
        like = dict(me)
        if me["k"] == "set":
            like["ek"] = me["items"][0]["k"]
            if meth.startswith(("_add", "_subtract", "_multiply", "_divide", "_modulo", "_power")):
                like = {"k": like["ek"]}
        other = _gen_any(rng, like)
        if meth in ("_power", "_power_right") or "power" in meth:
            other = _small_exponent(rng, other)
            me = _small_base(rng, me) if meth.endswith("_right") else me
        return {"self": me, "other": other}

    def build(desc):
        from pydsdl import _expression as X

        cls = getattr(X, clsname)
        me, other = _mk(desc["self"]), _mk(desc["other"])
        fn = cls.__dict__[meth] if meth in cls.__dict__ else getattr(cls, meth)
        import inspect

        params = list(inspect.signature(fn).parameters)
        if len(params) == 1:
            return (lambda: fn(me)), {"self": me}
        return (lambda: fn(me, other)), {"self": me, params[1]: other}

    return gen, build


def _small_exponent(rng, d):
    """keep exact powers small (10 ** 1e400 is an exact integer power and would run for minutes)"""
    def fix(x):
        if x["k"] == "rat" and (abs(x["n"]) > 300 or abs(x["d"]) > 300):
            return {"k": "rat", "n": rng.choice([2, -1, 1, 0, -3]), "d": rng.choice([1, 2])}
        return x

    if d["k"] == "set":
        return {"k": "set", "items": [fix(x) for x in d["items"]]}
    return fix(d)


_small_base = _small_exponent


def add_method(qualname):
    gen, build = _method_case(qualname)
    total = None if qualname.endswith("as_native_integer") else ONLY_INVALID_DEFINITION
    NATIVE.add(qualname, gen, build, outside_pre_only_raises=total)


def add_wrapper(qualname):
    name = qualname.split(".")[-1]

    def gen(rng, i):
        ex = _exotic_pair(i, EXOTIC_ALL)
        if ex is not None:
            return {"left": ex[0], "right": _small_exponent(rng, ex[1]) if name == "power" else ex[1]}
        l = _gen_any(rng)
        like = dict(l)
        if l["k"] == "set":
            like["ek"] = l["items"][0]["k"]
            if rng.random() < 0.5:
                like = {"k": like["ek"]}
        r = _gen_any(rng, like)
        if rng.random() < 0.3:
            l, r = r, l
        if name == "power":
            r = _small_exponent(rng, r)
        return {"left": l, "right": r}

    def build(desc):
        from pydsdl import _expression as X

        fn = getattr(X._operator, name)
        if name in ("logical_not", "positive", "negative"):
            o = _mk(desc["left"])
            return (lambda: fn(o)), {"operand": o}
        l, r = _mk(desc["left"]), _mk(desc["right"])
        return (lambda: fn(l, r)), {"left": l, "right": r}

    NATIVE.add(qualname, gen, build, outside_pre_only_raises=ONLY_INVALID_DEFINITION)


# ---- constructors
def _gen_rational_init(rng, i):
    return rng.choice([{"t": "int", "v": 5}, {"t": "int", "v": -(10 ** 30)}, {"t": "bool", "v": True},
                       {"t": "frac", "n": 1, "d": 3}, {"t": "float", "v": "0.5"}, {"t": "float", "v": "inf"},
                       {"t": "float", "v": "-inf"}, {"t": "float", "v": "nan"}, {"t": "float", "v": "1e308"},
                       {"t": "complex"}, {"t": "str", "v": "1"}, {"t": "none"}])


def _build_rational_init(d):
    from pydsdl import _expression as X

    v = {"int": lambda: d["v"], "bool": lambda: d["v"], "frac": lambda: fractions.Fraction(d["n"], d["d"]),
         "float": lambda: float(d["v"]), "complex": lambda: complex(0, 1), "str": lambda: d["v"],
         "none": lambda: None}[d["t"]]()
    return (lambda: X.Rational(v)), {"value": v}


def _gen_set_init(rng, i):
    n = rng.choice([0, 1, 2, 3])
    if rng.random() < 0.6:
        ek = rng.choice(["bool", "rat", "str", "type"])
        items = [_gen_scalar(rng, ek) for _ in range(n)]
    else:
        items = [_gen_any(rng) for _ in range(n)]
    return {"items": items, "as": rng.choice(["list", "tuple", "frozenset"])}


def _build_set_init(d):
    from pydsdl import _expression as X

    items = [_mk(x) for x in d["items"]]
    coll = {"list": list, "tuple": tuple, "frozenset": frozenset}[d["as"]](items)
    return (lambda: X.Set(coll)), {"elements": coll}


# ---- parser
_PIECES = ["a", "Z", " ", "\\n", "\\t", "\\r", "\\\\", "\\z", "\\", "\\u0041", "\\U0001F600", "\\UFFFFFFFF", "\\U00110000",
           "\\U0010FFFF", "\\ud800", "\\u12", "\\uZZZZ", "\\U0000004", "é", "\\x41", "\\N"]


def _gen_string_literal(rng, i):
    q = rng.choice(["'", '"'])
    other = '"' if q == "'" else "'"
    body = "".join(rng.choice(_PIECES + [other, "\\" + other]) for _ in range(rng.choice([0, 1, 1, 2, 3])))
    return {"literal": q + body + q}


def _build_string_literal(d):
    from pydsdl import _parser as P

    return (lambda: P._parse_string_literal(d["literal"])), {"literal": d["literal"]}


def _visitor(name, gen_text, first=()):
    def gen(rng, i):
        # the listed texts first (index-driven), then random ones
        return {"text": first[i] if i < len(first) else gen_text(rng)}

    def build(d):
        from pydsdl import _parser as P

        node = types.SimpleNamespace(text=d["text"])
        fn = getattr(P._ParseTreeProcessor, name)
        return (lambda: fn(None, node, ())), {"node": node, "_c": ()}

    NATIVE.add(E.PTP + name, gen, build)


def _digits(rng, alphabet, n):
    s = rng.choice(alphabet)
    for _ in range(n):
        s += rng.choice(["", "_"]) + rng.choice(alphabet)
    return s


def _gen_int_text(rng):
    k = rng.choice(["dec", "dec", "hex", "bin", "oct", "zero", "bad"])
    if k == "dec":
        return rng.choice("123456789") + ("" if rng.random() < 0.3 else rng.choice(["", "_"]) + _digits(rng, "0123456789", rng.choice([0, 1, 3])))
    if k == "hex":
        return rng.choice(["0x", "0X"]) + _digits(rng, "0123456789abcdefABCDEF", rng.choice([0, 1, 3]))
    if k == "bin":
        return rng.choice(["0b", "0B"]) + _digits(rng, "01", rng.choice([0, 1, 5]))
    if k == "oct":
        return rng.choice(["0o", "0O"]) + _digits(rng, "01234567", rng.choice([0, 1, 3]))
    if k == "zero":
        return rng.choice(["0", "00", "0_0", "000"])
    return rng.choice(["", "0x", "1__0", "_1", "1_", "0b2", "09", "1e5", "١"])


def _gen_real_text(rng):
    k = rng.choice(["point", "exp", "bad"])
    d = lambda: _digits(rng, "0123456789", rng.choice([0, 1, 2]))
    if k == "point":
        return rng.choice([d() + "." + d(), "." + d(), d() + "."])
    if k == "exp":
        return rng.choice([d(), d() + "." + d(), "." + d(), d() + "."]) + rng.choice("eE") + rng.choice(["", "+", "-"]) + \
            _digits(rng, "0123456789", rng.choice([0, 1]))
    return rng.choice(["", ".", "e5", "1e", "1.e+", "1__0.5", "1/2", "nan", "inf"])


def _gen_capacity(rng, i):
    return {"ex": _gen_any(rng, {"k": "rat"})}


def _build_capacity(d):
    from pydsdl import _parser as P

    ex = _mk(d["ex"])
    return (lambda: P._unwrap_array_capacity(ex)), {"ex": ex}


def _gen_version(rng, i):
    return {"major": _gen_rat(rng), "minor": _gen_rat(rng)}


def _build_version(d):
    from pydsdl import _parser as P

    ch = (_mk(d["major"]), None, _mk(d["minor"]))
    return (lambda: P._ParseTreeProcessor.visit_type_version_specifier(None, None, ch)), {"_n": None, "children": ch}


def _gen_literal_set(rng, i):
    return _gen_set_init(rng, i)


def _build_literal_set(d):
    from pydsdl import _parser as P

    items = tuple(_mk(x) for x in d["items"])
    ch = (None, None, items, None, None)
    return (lambda: P._ParseTreeProcessor.visit_literal_set(None, None, ch)), {"_n": None, "children": ch}


def _unary_form(name):
    def gen(rng, i):
        return {"x": _gen_any(rng)}

    def build(d):
        from pydsdl import _parser as P
        from parsimonious.nodes import Node

        x = _mk(d["x"])
        ch = (Node(None, "", 0, 0), None, x)
        return (lambda: getattr(P._ParseTreeProcessor, name)(None, None, ch)), {"_n": None, "children": ch}

    NATIVE.add(E.PTP + name, gen, build)


_ATTR_NAMES = ["min", "max", "count", "foo"]


def _gen_set_attribute(rng, i):
    if i < len(EXOTIC_SETS) * len(_ATTR_NAMES):
        return {"self": EXOTIC_SETS[i % len(EXOTIC_SETS)], "name": _ATTR_NAMES[i // len(EXOTIC_SETS)]}
    return {"self": _gen_set(rng), "name": rng.choice(["min", "max", "count", "count", "foo", ""])}


def _build_set_attribute(d):
    from pydsdl import _expression as X

    me, name = _mk(d["self"]), X.String(d["name"])
    return (lambda: me._attribute(name)), {"self": me, "name": name}


def install(reg):
    """One native case per verified contract of the expression layer."""
    for q, c in sorted(reg.contracts.items()):
        if not ({"C13", "C04"} & set(c.props)) or not c.verify:
            continue
        if q.endswith("_operator.attribute"):
            continue  # install_attribute()
        if q.startswith(E.EX + "_operator."):
            add_wrapper(q)
        elif q.endswith("Rational.__init__"):
            NATIVE.add(q, _gen_rational_init, _build_rational_init)
        elif q.endswith("Set.__init__"):
            NATIVE.add(q, _gen_set_init, _build_set_init)
        elif q.endswith("Set._attribute"):
            NATIVE.add(q, _gen_set_attribute, _build_set_attribute, outside_pre_only_raises=ONLY_INVALID_DEFINITION)
        elif q.endswith("._attribute"):
            continue
        elif q.startswith(E.EX) and q.split(".")[-2] in _CLASS_KIND:
            add_method(q)
    NATIVE.add(E.PARSER + "_parse_string_literal",
               lambda rng, i: {"literal": E._STRING_TEXTS[i]} if i < len(E._STRING_TEXTS) else _gen_string_literal(rng, i),
               _build_string_literal)
    _visitor("visit_literal_integer", _gen_int_text, E._INT_TEXTS)
    _visitor("visit_literal_integer_decimal", _gen_int_text, E._DEC_TEXTS)
    _visitor("visit_literal_real", _gen_real_text, E._REAL_TEXTS)
    _visitor("visit_literal_string_single_quoted", lambda rng: _gen_string_literal(rng, 0)["literal"])
    _visitor("visit_literal_string_double_quoted", lambda rng: _gen_string_literal(rng, 0)["literal"])
    NATIVE.add(E.PARSER + "_unwrap_array_capacity", _gen_capacity, _build_capacity)
    NATIVE.add(E.PTP + "visit_type_version_specifier", _gen_version, _build_version)
    NATIVE.add(E.PTP + "visit_literal_set", _gen_literal_set, _build_literal_set)
    for n in ("visit_op1_form_log_not", "visit_op1_form_inv_pos", "visit_op1_form_inv_neg"):
        _unary_form(n)


# ---- funnel
def _gen_error_location(rng, i):
    opt = lambda xs: rng.choice(xs)
    return {"path0": opt([None, "a.dsdl"]), "line0": opt([None, 0, 3]), "path": opt([None, "b.dsdl"]), "line": opt([None, 0, 7])}


def _build_error_location(d):
    from pathlib import Path
    from pydsdl import _error

    p = lambda x: Path(x) if x is not None else None
    e = _error.InvalidDefinitionError("x", path=p(d["path0"]), line=d["line0"])
    return (lambda: e.set_error_location_if_unknown(path=p(d["path"]), line=d["line"])), \
        {"self": e, "path": p(d["path"]), "line": d["line"]}


def _gen_parse(rng, i):
    from . import c13

    return {"text": rng.choice(c13.TARGETED) + "\n"}


def _build_parse(d):
    from pydsdl import _parser, _error, _expression, _serializable

    class Stub(_parser.StatementStreamProcessor):
        def on_header_comment(self, comment): pass
        def on_attribute_comment(self, comment): pass
        def on_constant(self, constant_type, name, value): pass
        def on_field(self, field_type, name): pass
        def on_padding_field(self, padding_field_type): pass
        def on_directive(self, line_number, directive_name, associated_expression_value): pass
        def on_service_response_marker(self): pass

        def resolve_top_level_identifier(self, name):
            raise _error.InvalidDefinitionError("undefined identifier")

        def resolve_versioned_data_type(self, name, version):
            raise _error.InvalidDefinitionError("undefined type")

    st = Stub()
    return (lambda: _parser.parse(d["text"], st, strict=False)), {"text": d["text"], "statement_stream_processor": st,
                                                                    "strict": False}


def install_funnel():
    NATIVE.add("pydsdl._error.Error.set_error_location_if_unknown", _gen_error_location, _build_error_location)
    NATIVE.add(E.PARSER + "parse", _gen_parse, _build_parse)


# ---- service types as type expressions (specs/c13_types.py)
def _mk_composite(kind):
    from pathlib import Path
    from pydsdl import _serializable as S

    u8 = S.UnsignedIntegerType(8, S.PrimitiveType.CastMode.SATURATED)

    def struct(name, parent):
        comps = name.split(".")
        path = Path(*comps[:-2 if parent else -1]) / ("%s.1.0.dsdl" % comps[-2 if parent else -1])
        return S.StructureType(name=name, version=S.Version(1, 0),
                               attributes=[S.Field(u8, "a"), S.Constant(u8, "K", __import__("pydsdl")._expression.Rational(7))],
                               deprecated=False, fixed_port_id=None, source_file_path=path, has_parent_service=parent)

    if kind == "service":
        return S.ServiceType(struct("ns.S.Request", True), struct("ns.S.Response", True), None)
    if kind == "delimited":
        return S.DelimitedType(struct("ns.M", False), 64)
    if kind == "u8":
        return u8
    return struct("ns.M", False)


def _gen_type_attr(rng, i):
    return {"t": rng.choice(["service", "struct", "delimited"]), "name": rng.choice(["_extent_", "_bit_length_", "K", "foo", ""])}


def _build_type_attr(d):
    from pydsdl import _expression as X, _serializable as S

    t, name = _mk_composite(d["t"]), X.String(d["name"])
    return (lambda: S.CompositeType._attribute(t, name)), {"self": t, "name": name}


def _gen_extent(rng, i):
    return {"t": rng.choice(["service", "struct"])}


def _build_extent(d):
    from pydsdl import _serializable as S

    t = _mk_composite(d["t"])
    return (lambda: S.CompositeType.extent.fget(t)), {"self": t}


def _gen_array_init(rng, i):
    return {"elem": rng.choice(["u8", "struct", "service"]), "capacity": rng.choice([-1, 0, 1, 2, 300]),
            "cls": rng.choice(["ArrayFixed", "ArrayVariable"])}


def _build_array_init(d):
    from pydsdl import _serializable as S

    e = _mk_composite(d["elem"])
    cls = S.FixedLengthArrayType if d["cls"] == "ArrayFixed" else S.VariableLengthArrayType
    return (lambda: cls(e, d["capacity"])), {"element_type": e, "capacity": d["capacity"]}


def _gen_array_visitor(rng, i):
    return {"elem": rng.choice(["u8", "struct", "service"]), "len": _gen_any(rng, {"k": "rat"})}


def _build_array_visitor(name, n_children, len_idx):
    def build(d):
        from pydsdl import _parser as P

        ch = [None] * n_children
        ch[0] = _mk_composite(d["elem"])
        ch[len_idx] = _mk(d["len"])
        ch = tuple(ch)
        return (lambda: getattr(P._ParseTreeProcessor, name)(None, None, ch)), {"_n": None, "children": ch}

    return build


def install_types(reg):
    S = "pydsdl._serializable."
    NATIVE.add(S + "_composite.CompositeType._attribute", _gen_type_attr, _build_type_attr)
    NATIVE.add(S + "_composite.CompositeType.extent", _gen_extent, _build_extent)
    NATIVE.add(S + "_array.ArrayType.__init__", _gen_array_init, _build_array_init)
    NATIVE.add(E.PTP + "visit_type_array_fixed", _gen_array_visitor, _build_array_visitor("visit_type_array_fixed", 7, 4))
    NATIVE.add(E.PTP + "visit_type_array_variable_inclusive", _gen_array_visitor,
               _build_array_visitor("visit_type_array_variable_inclusive", 9, 6))
    NATIVE.add(E.PTP + "visit_type_array_variable_exclusive", _gen_array_visitor,
               _build_array_visitor("visit_type_array_variable_exclusive", 9, 6))


# ---- operator chains
def _gen_chain(rng, i):
    n = [0, 1, 2, 3, 4][i % 5]
    return {"first": _gen_rat(rng), "ops": [rng.choice(["subtract", "divide", "power", "add", "less"]) for _ in range(n)],
            "rights": [_small_exponent(rng, _gen_rat(rng)) for _ in range(n)]}


def _build_chain(d):
    from pydsdl import _parser as P, _expression as X

    first = _mk(d["first"])
    chain = [(None, getattr(X, op), None, _mk(r)) for op, r in zip(d["ops"], d["rights"])]
    ch = (first, chain)
    return (lambda: P._ParseTreeProcessor._visit_binary_operator_chain(None, None, ch)), {"_n": None, "children": ch}


def install_chain():
    NATIVE.add(E.PTP + "_visit_binary_operator_chain", _gen_chain, _build_chain)


# ---- the attribute operator
_ATTR_ALL = ["min", "max", "count", "_bit_length_", "_extent_", "K", "foo", ""]


def _gen_attribute(rng, i):
    vals = EXOTIC_ALL + [{"k": "comp", "t": t} for t in ("service", "struct", "delimited")]
    if i < len(vals) * len(_ATTR_ALL):
        v, n = vals[i % len(vals)], _ATTR_ALL[i // len(vals)]
    else:
        v, n = rng.choice(vals + [_gen_any(rng)]), rng.choice(_ATTR_ALL)
    return {"value": v, "name": n, "as_string": i % 2 == 0}


def _build_attribute(d):
    from pydsdl import _expression as X

    v = _mk_composite(d["value"]["t"]) if d["value"]["k"] == "comp" else _mk(d["value"])
    name = X.String(d["name"]) if d["as_string"] else d["name"]
    return (lambda: X.attribute(v, name)), {"value": v, "name": name}


def install_attribute():
    NATIVE.add(E.OPMOD + "attribute", _gen_attribute, _build_attribute, outside_pre_only_raises=ONLY_INVALID_DEFINITION)
