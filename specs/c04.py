"""
C04 - constant expressions evaluate exactly, with the Specification's precedence.

Deductive part: the value side of the expression-layer contracts (specs/expr.py, shared with C13): exact rational
arithmetic, comparison, boolean logic, string + / ==, set algebra, element-wise application in both operand orders, the
dispatch table of the operator wrappers (defined / UndefinedOperatorError / InvalidOperandError per operand classes),
unary forms, literal visitors, array capacity and version specifier.

Checks that are *not* proofs (level "other"/bounded, reported under coverage.extra_checks, never counted as obligations):
  * precedence_structure: the rule graph of the real grammar.parsimonious has the Specification's layering and every
    operator token is bound to the operator function of the Specification (structural check of real data);
  * literal_enumeration: every text up to a bound that the real grammar accepts as an integer / real literal is decoded
    to its mathematical value (and is acceptable to int()/Fraction(): the precondition of the literal visitors);
  * left_fold: `_visit_binary_operator_chain` is a left fold, on recorded random chains.
"""
import ast
import fractions
import itertools
import random

from pyvc.spec import REG
from .expr import *  # noqa
from . import expr as _expr
from . import expr_native as _native
from . import c13_types as _types  # attribute chain on type values (dispatch / error side)

LEVEL = "proof"
_native.install(REG) if not _native.NATIVE.cases else None
_native.install_chain() if not any(q.endswith('_visit_binary_operator_chain') for q, _, _ in _native.NATIVE.cases) else None
_native.install_attribute() if not any(q.endswith('_operator.attribute') for q, _, _ in _native.NATIVE.cases) else None
_native.install_types(REG) if not any(q.endswith('CompositeType._attribute') for q, _, _ in _native.NATIVE.cases) else None
NATIVE = _native.NATIVE
NATIVE_BUDGET = {"quick": 40, "thorough": 600}

EXPLANATION = (
    "Value side of the expression-layer contracts: each operator method of Boolean/Rational/String/Set, each of the 21 "
    "wrappers of _operator.py (verified as the *decorated* function: _auto_swap is executed symbolically) and the literal / "
    "unary visitors return exactly the value the Specification's table prescribes over exact rationals (fractions.Fraction = "
    "z3 Real), and raise UndefinedOperatorError / InvalidOperandError if and only if the table says so.  The wrappers are "
    "verified for *arbitrary* operands by case split over the closed class world, which covers every ordered pair of "
    "{Boolean, Rational, String, Set<Rational>, Set<String>, Set<Boolean>, serializable type}.")
NOT_COVERED = [
    "tokenisation, blanks and parentheses: that the tree handed to the visitors is the one the Specification grammar "
    "prescribes (PEG semantics of parsimonious is assumed; the rule layering is checked structurally, level 'other')",
    "literal digits for ALL texts: for a symbolic text the decoding functions digits_value / fraction_literal_value are "
    "uninterpreted (proved: which text, which base, prefix dispatch, exactness of the Fraction); the digit-level meaning is "
    "proved on the listed concrete texts of every notation against an independent decoder, and enumerated (bounded) against "
    "the real grammar",
    "string literals: the decoded text is proved value by value on concrete literals covering every entry of the escape table "
    "(well-formed and malformed); for a symbolic literal only the exception classes; literals containing the escaped "
    "delimiter are outside the precondition",
    "the values of the layout intrinsics `_bit_length_` / `_extent_` (C08); SerializableType._attribute is an assumed "
    "dispatch-side contract; identifiers (unknown identifiers of the statement); sets of sets as operands of the table",
    "sets of sets / sets of types in the operator table (precondition `domain`); non-integer exponents are specified through "
    "CPython's binary floating point (uninterpreted fpow_* functions), as the code computes them - not as mathematical roots",
    "bitwise | ^ & on integers are uninterpreted total functions of the two operands (operand order and integrality are "
    "checked, the bit pattern is not); NFC normalisation is an uninterpreted function",
]
ASSUMPTIONS = [
    "fractions.Fraction arithmetic is exact rational arithmetic with the CPython exceptions listed under "
    "assumed_library_contracts; equality/hash of expression values is value equality (sets of canonical references)",
    "Set element classes are Boolean, Rational or String (contract preconditions `domain`; `Set._attribute` / `attribute`: "
    "any class but Set)",
    "operator callables found in a parse tree behave like the operator functions of pydsdl._expression (result = a function "
    "of callable, left, right; only InvalidOperandError subclasses are raised)",
    "functools.reduce: selection-fold lemma (premises are obligations); int(str, base) / Fraction(str): PEP 515 separators, "
    "prefix dispatch, positional value uninterpreted",
]

# ------------------------------------------------------------------------------------------------ Specification tables
# precedence, lowest first: (chain rule, operand rule, operator group, {token: operator function of _expression})
LEVELS = [
    ("ex_logical", "ex_logical_not", "op2_log", {"||": "logical_or", "&&": "logical_and"}),
    ("ex_comparison", "ex_bitwise", "op2_cmp", {"==": "equal", "!=": "not_equal", "<=": "less_or_equal",
                                                 ">=": "greater_or_equal", "<": "less", ">": "greater"}),
    ("ex_bitwise", "ex_additive", "op2_bit", {"|": "bitwise_or", "^": "bitwise_xor", "&": "bitwise_and"}),
    ("ex_additive", "ex_multiplicative", "op2_add", {"+": "add", "-": "subtract"}),
    ("ex_multiplicative", "ex_inversion", "op2_mul", {"*": "multiply", "/": "divide", "%": "modulo"}),
]
UNARY = {"op1_form_log_not": ("!", "ex_logical_not", "logical_not"),  # right recursion: !!x
         "op1_form_inv_pos": ("+", "ex_exponential", "positive"),     # binds weaker than ** on its right: -2**2 = -(2**2)
         "op1_form_inv_neg": ("-", "ex_exponential", "negative")}


def _real_grammar():
    import pydsdl  # noqa  (puts the vendored parsimonious on sys.path)
    from pydsdl import _parser

    return _parser._get_grammar()


def _kind(r):
    return type(r).__name__


def _is_blank_opt(r):
    return _kind(r) == "Quantifier" and r.min == 0 and r.max == 1 and getattr(r.members[0], "name", "") == "_"


def precedence_structure(eng, tier, seed):
    g = _real_grammar()
    bad = []

    def expect(cond, what):
        if not cond:
            bad.append(what)

    def chain(name, operand, opgroup, many=True, right=None):
        r = g[name]
        expect(_kind(r) == "Sequence" and len(r.members) == 2, "%s is not `operand (op operand)*`" % name)
        if _kind(r) != "Sequence" or len(r.members) != 2:
            return
        first, rest = r.members
        expect(first.name == operand, "%s: first operand is %s, expected %s" % (name, first.name, operand))
        expect(_kind(rest) == "Quantifier" and rest.min == 0 and (rest.max == float("inf") if many else rest.max == 1),
               "%s: repetition bounds" % name)
        inner = rest.members[0]
        ok = _kind(inner) == "Sequence" and len(inner.members) == 4 and _is_blank_opt(inner.members[0]) and \
            _is_blank_opt(inner.members[2]) and inner.members[1].name == opgroup and \
            inner.members[3].name == (right or operand)
        expect(ok, "%s: repeated part is not `_? %s _? %s`" % (name, opgroup, right or operand))

    for name, operand, opgroup, tokens in LEVELS:
        chain(name, operand, opgroup)
        grp = g[opgroup]
        lits = {m.literal: m.name for m in grp.members} if _kind(grp) == "OneOf" else {}
        expect(set(lits) == set(tokens), "%s: tokens %s, expected %s" % (opgroup, sorted(lits), sorted(tokens)))
        # longest-match first among tokens sharing a prefix (PEG ordered choice)
        order = [m.literal for m in getattr(grp, "members", [])]
        for i, a in enumerate(order):
            for b in order[i + 1:]:
                expect(not b.startswith(a), "%s: %r is tried before its extension %r" % (opgroup, a, b))
    # ** : right-recursive into ex_inversion, binds tighter than the unary sign on its left
    chain("ex_exponential", "ex_attribute", "op2_exp_pow", many=False, right="ex_inversion")
    expect(g["op2_exp_pow"].literal == "**", "op2_exp_pow token")
    chain("ex_attribute", "expression_atom", "op2_attrib", right="identifier")
    expect(g["op2_attrib"].literal == ".", "attribute token")
    expect([m.name for m in g["ex_logical_not"].members] == ["op1_form_log_not", "ex_comparison"], "ex_logical_not alternatives")
    expect([m.name for m in g["ex_inversion"].members] == ["op1_form_inv_pos", "op1_form_inv_neg", "ex_exponential"],
           "ex_inversion alternatives")
    for rule, (tok, operand, _fn) in UNARY.items():
        r = g[rule]
        ok = _kind(r) == "Sequence" and len(r.members) == 3 and r.members[0].literal == tok and \
            _is_blank_opt(r.members[1]) and r.members[2].name == operand
        expect(ok, "%s is not `%r _? %s`" % (rule, tok, operand))
    expect(g["expression"] is g["ex_logical"] or g["expression"].name == "ex_logical", "expression is not ex_logical")
    par = g["expression_parenthesized"]
    expect(_kind(par) == "Sequence" and [getattr(m, "literal", None) for m in (par.members[0], par.members[-1])] == ["(", ")"]
           and par.members[2].name == "ex_logical", "parenthesized expression")
    expect([m.name for m in g["expression_atom"].members] == ["expression_parenthesized", "type", "literal", "identifier"],
           "expression_atom alternatives")

    # token rule -> operator function binding in the real visitor class (read from the AST of /repo)
    ptp = eng.repo.cls("pydsdl._parser._ParseTreeProcessor")
    bound = {}
    for attr, node in ptp.class_attrs.items():
        if isinstance(node, ast.Call) and getattr(node.func, "id", "") == "_make_binary_operator_handler":
            bound[attr] = ast.unparse(node.args[0]).split(".")[-1]
    for name, operand, opgroup, tokens in LEVELS + [("", "", "op2_exp", {"**": "power"})]:
        grp = g[opgroup] if opgroup != "op2_exp" else None
        members = grp.members if grp is not None and _kind(grp) == "OneOf" else [g["op2_exp_pow"]]
        for m in members:
            fn = bound.get("visit_" + m.name)
            expect(fn == tokens.get(m.literal), "token %r (%s) is bound to %s, expected %s" % (m.literal, m.name, fn,
                                                                                              tokens.get(m.literal)))
    chains = [n for n, v in ptp.class_attrs.items() if isinstance(v, ast.Name) and v.id == "_visit_binary_operator_chain"]
    expect(set(chains) == {"visit_" + l[0] for l in LEVELS} | {"visit_ex_exponential", "visit_ex_attribute"},
           "chain visitors: %s" % sorted(chains))
    return {"name": "precedence_structure", "level": "other (structural check of the real grammar data; PEG semantics assumed)",
            "rules_checked": len(LEVELS) + 2 + len(UNARY) + 5, "ok": not bad,
            "violations": [{"name": "C04/extra#precedence-structure", "detail": "; ".join(bad), "concrete": {"problems": bad}}]
            if bad else []}


# ------------------------------------------------------------------------------------------------ literals
_independent_int, _independent_real = INDEP_INT, INDEP_REAL  # the Specification's literal semantics (specs/expr.py)


def literal_enumeration(eng, tier, seed):
    import pydsdl  # noqa
    from pydsdl import _parser
    import parsimonious
    import types

    g = _parser._get_grammar()
    bad = []
    counts = {}
    n_int, n_real = (5, 5) if tier == "quick" else (6, 6)
    for rule, alphabet, n, visitor, indep in (
            ("literal_integer", "019_aFxXbBoO7", n_int, "visit_literal_integer", _independent_int),
            ("literal_real", "09_.eE+-", n_real, "visit_literal_real", _independent_real)):
        accepted = 0
        for length in range(1, n + 1):
            for tup in itertools.product(alphabet, repeat=length):
                text = "".join(tup)
                try:
                    node = g[rule].parse(text)
                except parsimonious.ParseError:
                    continue
                except parsimonious.exceptions.IncompleteParseError:
                    continue
                accepted += 1
                try:
                    r = getattr(_parser._ParseTreeProcessor, visitor)(None, types.SimpleNamespace(text=text), ())
                    if r.native_value != indep(text):
                        bad.append({"rule": rule, "text": text, "got": str(r.native_value), "expected": str(indep(text))})
                except Exception as ex:  # the precondition of the visitor's contract does not hold for a grammatical text
                    bad.append({"rule": rule, "text": text, "raised": type(ex).__name__})
        counts[rule] = accepted
    return {"name": "literal_enumeration", "level": "bounded",
            "bound": "all texts over the listed alphabets up to length %d accepted by the real grammar rule" % n_int,
            "accepted_texts": counts, "ok": not bad,
            "violations": [{"name": "C04/extra#literal-decoding", "detail": str(bad[:3]), "concrete": bad[0]}] if bad else []}


def left_fold(eng, tier, seed):
    import pydsdl  # noqa
    from pydsdl import _parser, _expression as X

    rng = random.Random(seed)
    bad = []
    runs = 300 if tier == "quick" else 3000
    for _ in range(runs):
        n = rng.randrange(0, 5)
        vals = [X.String(chr(97 + i)) for i in range(n + 1)]
        log = []

        def mk(tag):
            def op(l, r):
                log.append((tag, l.native_value, r.native_value))
                return X.String("(" + l.native_value + tag + r.native_value + ")")

            return op

        tags = [rng.choice("+-*") for _ in range(n)]
        children = (vals[0], [(None, mk(tags[i]), None, vals[i + 1]) for i in range(n)])
        out = _parser._ParseTreeProcessor._visit_binary_operator_chain(None, None, children)
        exp = vals[0].native_value
        for i in range(n):
            exp = "(" + exp + tags[i] + vals[i + 1].native_value + ")"
        if out.native_value != exp:
            bad.append({"tags": tags, "got": out.native_value, "expected": exp})
    return {"name": "left_fold", "level": "bounded", "bound": "%d random operator chains of length <= 4" % runs, "ok": not bad,
            "violations": [{"name": "C04/extra#left-fold", "detail": str(bad[0]), "concrete": bad[0]}] if bad else []}


EXTRA_CHECKS = [precedence_structure, literal_enumeration, left_fold]


# effect obligations (AST, complete for what they state): no argument-keyed cache decorator, no module-level state - see
# specs/common.py (the outcome of reading a text depends on the text and its dependencies, not on earlier reads)
from .common import no_hidden_state_check as _no_hidden_state_check  # noqa: E402
EXTRA_CHECKS = list(globals().get("EXTRA_CHECKS", [])) + [_no_hidden_state_check(
    ["pydsdl._expression._any", "pydsdl._expression._primitive", "pydsdl._expression._container", "pydsdl._expression._operator", "pydsdl._parser"], "the expression layer and the literal visitors")]
