"""
C03 - The model mirrors the source text (statement -> model COMMIT PROTOCOL).

What is under contract here (all real code of /repo, VCs generated from the ASTs on every run):
  level 1  DataSchemaBuilder        add_field / add_constant / attributes / fields / constants / set_comment / make_union /
                                    set_serialization_mode
  level 2  DataTypeBuilder          on_header_comment / on_attribute_comment / on_field / on_constant / on_padding_field /
                                    on_service_response_marker / on_directive (+ the six directive handlers)
  level 3  _ParseTreeProcessor      __init__, _flush_comment, visit_line, visit_end_of_line, visit_comment, visit_identifier,
                                    visit_statement_{field,constant,padding_field,service_response_marker,directive_*}
  level 4  specs/drivers/c03_driver.py  the ASSUMED parsimonious traversal of one `line` node (children first, left to
                                    right, then visit_<rule>), written as Python whose body calls the REAL visitors; the
                                    protocol invariant INV is proved per line kind, and the end-of-input requirement of the
                                    property ("nothing pending") is an obligation of `end_of_input`.

Oracle: the ghost parameters g_* of the driver steps follow the *documented rule* of the property statement (an
attribute's doc is its same-line comment plus the following comment-only lines up to the next statement or blank line;
the header comment is the comment block before the first statement / blank line of a section), stated per source line -
not per visitor event, which is how the code works (deferred flush).
"""
import z3
from pyvc.spec import contract, class_spec, inline_ok
from pyvc.values import (Int, Bool, Str, Opt, Rec, SeqOf, ObjOf, MutObjOf, ListK, ClosureOf, Const, SymSeq, PyList, Obj,
                         SymClosure, OptV)
from pyvc.speclib import AND, OR, NOT, IMPLIES, IFF, ITE, EQ, IS_NONE, VAL, ISINST, LEN, AT, smt
from pyvc import speclib
from .common import SERIALIZABLE, ANY, ATTRIBUTE, FIELD, PADDING, CONSTANT, VOID_T, COMPOSITE

P = ["C03"]
P17 = ["C03", "C17"]

DSB = "pydsdl._data_schema_builder.DataSchemaBuilder"
SMODE = "pydsdl._data_schema_builder.SerializationMode"
DELIM_MODE = "pydsdl._data_schema_builder.DelimitedSerializationMode"
SEALED_MODE = "pydsdl._data_schema_builder.SealedSerializationMode"
DTB = "pydsdl._data_type_builder.DataTypeBuilder"
SSP = "pydsdl._parser.StatementStreamProcessor"
PTP = "pydsdl._parser._ParseTreeProcessor"
RDF = "pydsdl._dsdl.ReadableDSDLFile"


# ------------------------------------------------------------------------------------------------ sequence vocabulary
def _ref(x):
    return x.ref if isinstance(x, Obj) else x


def _forall(i, body, pats):
    """Quantifier with the given triggers where z3 accepts them (a lambda-valued array cannot be a trigger)."""
    try:
        return z3.ForAll([i], body, patterns=pats)
    except z3.Z3Exception:
        return z3.ForAll([i], body)


def SAME(a, b):
    """`a is b` (objects) / equal immutable values."""
    if smt():
        from pyvc import mutstate

        return speclib._b(mutstate.identical(speclib.CTX.engine, speclib.CTX, a, b))
    if isinstance(a, (str, int, bool)) or a is None:
        return a == b and type(a) is type(b)
    return a is b


def SEQ_SAME(new, old):
    """Same length, pointwise the same objects."""
    if smt():
        if isinstance(new, PyList) or isinstance(old, PyList):
            n_items = new.items if isinstance(new, PyList) else None
            o_items = old.items if isinstance(old, PyList) else None
            if n_items is not None and o_items is not None:
                return AND(len(n_items) == len(o_items), *[SAME(x, y) for x, y in zip(n_items, o_items)])
        i = z3.FreshConst(z3.IntSort(), "i")
        return z3.And(new.length == old.length,
                      _forall(i, z3.Implies(z3.And(0 <= i, i < old.length),
                                            z3.Select(new.arr, i) == z3.Select(old.arr, i)), [z3.Select(new.arr, i)]))
    return len(new) == len(old) and all(x is y for x, y in zip(new, old))


def SEQ_APPENDED(new, old, x=None):
    """new == old ++ [x]   (x omitted: new is old plus exactly one more element)."""
    if smt():
        i = z3.FreshConst(z3.IntSort(), "i")
        cs = [new.length == old.length + 1,
              _forall(i, z3.Implies(z3.And(0 <= i, i < old.length), z3.Select(new.arr, i) == z3.Select(old.arr, i)),
                      [z3.Select(new.arr, i)])]
        if x is not None:
            cs.append(z3.Select(new.arr, old.length) == _ref(x))
        return z3.And(*cs)
    return len(new) == len(old) + 1 and all(a is b for a, b in zip(new, old)) and (x is None or new[-1] is x)


def SEQ_CONCAT(res, a, b):
    """res == a ++ b"""
    if smt():
        i = z3.FreshConst(z3.IntSort(), "i")
        j = z3.FreshConst(z3.IntSort(), "j")
        return z3.And(
            res.length == a.length + b.length,
            _forall(i, z3.Implies(z3.And(0 <= i, i < a.length), z3.Select(res.arr, i) == z3.Select(a.arr, i)),
                    [z3.Select(res.arr, i)]),
            _forall(j, z3.Implies(z3.And(0 <= j, j < b.length), z3.Select(res.arr, a.length + j) == z3.Select(b.arr, j)),
                    [z3.Select(b.arr, j)]))
    return len(res) == len(a) + len(b) and all(x is y for x, y in zip(res, list(a) + list(b)))


def LAST(seq):
    if smt():
        return seq.at(speclib.CTX, seq.length - 1)
    return seq[-1]


# ------------------------------------------------------------------------------------------------ level 1: schema builder
@class_spec(SMODE)
class _SModeSpec:
    fields = {}


@class_spec(DELIM_MODE)
class _DelimModeSpec:
    fields = dict(extent=Int)


@class_spec(DSB)
class _DSBSpec:
    fields = dict(
        _fields=SeqOf(ObjOf(FIELD)),
        _constants=SeqOf(ObjOf(CONSTANT)),
        _serialization_mode=Opt(ObjOf(SMODE)),
        _is_union=Bool,
        _bit_length_computed_at_least_once=Bool,
        _doc=Str,
    )
    mutable = ["_fields", "_constants", "_serialization_mode", "_is_union", "_bit_length_computed_at_least_once", "_doc"]


inline_ok(DSB + ".doc", DSB + ".serialization_mode", DSB + ".union", DELIM_MODE + ".__init__",
          why="trivial accessor / constructor of the schema builder: inlined (its body is its own strongest contract)")

_DSB_FIELDS = ["_fields", "_constants", "_serialization_mode", "_is_union", "_bit_length_computed_at_least_once", "_doc"]


def dsb_unchanged(new, old, *except_):
    """Frame of a schema builder: every field not listed is what it was."""
    cs = []
    for f in _DSB_FIELDS:
        if f in except_:
            continue
        a, b = getattr(new, f), getattr(old, f)
        if f in ("_fields", "_constants"):
            cs.append(SEQ_SAME(a, b))
        else:
            cs.append(SAME(a, b))
    return AND(*cs)


@contract(DSB + ".__init__", props=P)
class _DSBInit:
    def post(s):
        b = s.self
        return {"empty": AND(LEN(b._fields) == 0, LEN(b._constants) == 0),
                "no-mode": IS_NONE(b._serialization_mode),
                "flags": AND(NOT(b._is_union), NOT(b._bit_length_computed_at_least_once)),
                "no-doc": EQ(b._doc, "")}


@contract(DSB + ".fields", props=P)
class _DSBFields:
    returns = SeqOf(ObjOf(FIELD))

    def post(s):
        return {"the-fields": SEQ_SAME(s.result, s.self._fields), "frame": dsb_unchanged(s.self, s.old)}


@contract(DSB + ".constants", props=P)
class _DSBConstants:
    returns = SeqOf(ObjOf(CONSTANT))

    def post(s):
        return {"the-constants": SEQ_SAME(s.result, s.self._constants), "frame": dsb_unchanged(s.self, s.old)}


@contract(DSB + ".attributes", props=P)
class _DSBAttributes:
    """Statement: fields and paddings in source order, then constants in source order."""
    returns = SeqOf(ObjOf(ATTRIBUTE))

    def post(s):
        return {"fields-then-constants": SEQ_CONCAT(s.result, s.self._fields, s.self._constants),
                "frame": dsb_unchanged(s.self, s.old)}


@contract(DSB + ".set_comment", props=P)
class _DSBSetComment:
    params = dict(comment=Str)
    modifies = ["_doc"]

    def post(s):
        return {"doc": EQ(s.self._doc, s.comment), "frame": dsb_unchanged(s.self, s.old, "_doc")}


@contract(DSB + ".add_field", props=P)
class _DSBAddField:
    params = dict(field=ObjOf(FIELD))
    modifies = ["_fields"]
    raises = {"BitLengthAnalysisError": lambda s: AND(s.old._is_union, s.old._bit_length_computed_at_least_once)}

    def post(s):
        return {"appended-last": SEQ_APPENDED(s.self._fields, s.old._fields, s.field),
                "frame": dsb_unchanged(s.self, s.old, "_fields")}


@contract(DSB + ".add_constant", props=P)
class _DSBAddConstant:
    params = dict(constant=ObjOf(CONSTANT))
    modifies = ["_constants"]

    def post(s):
        return {"appended-last": SEQ_APPENDED(s.self._constants, s.old._constants, s.constant),
                "frame": dsb_unchanged(s.self, s.old, "_constants")}


@contract(DSB + ".set_serialization_mode", props=P)
class _DSBSetMode:
    params = dict(mode=ObjOf(SMODE))
    modifies = ["_serialization_mode"]

    def pre(s):
        return {"mode-not-set-yet": IS_NONE(s.self._serialization_mode)}

    def post(s):
        return {"mode": AND(NOT(IS_NONE(s.self._serialization_mode)), lambda: SAME(VAL(s.self._serialization_mode), s.mode)),
                "frame": dsb_unchanged(s.self, s.old, "_serialization_mode")}


@contract(DSB + ".make_union", props=P)
class _DSBMakeUnion:
    modifies = ["_is_union"]

    def pre(s):
        return {"not-yet-union": NOT(s.self._is_union)}

    def post(s):
        return {"union": s.self._is_union, "frame": dsb_unchanged(s.self, s.old, "_is_union")}


# ------------------------------------------------------------------------------------------------ native harness
from pyvc.native import NativeSuite

NATIVE = NativeSuite()
LEVEL = "proof"
NOT_COVERED = []
EXPLANATION = ""
ASSUMPTIONS = []
