"""
C03 - The model mirrors the source text (statement -> model COMMIT PROTOCOL).

What is under contract here (all real code of /repo, VCs generated from the ASTs on every run):
  level 1  DataSchemaBuilder        add_field / add_constant / attributes / fields / constants / set_comment / make_union /
                                    set_serialization_mode
  level 2  DataTypeBuilder          on_header_comment / on_attribute_comment / on_field / on_constant / on_padding_field /
                                    on_service_response_marker / on_directive (+ the six directive handlers)
  level 3  _ParseTreeProcessor      __init__, _flush_comment, visit_line, visit_end_of_line, visit_comment, visit_identifier,
                                    visit_statement_{field,constant,padding_field,service_response_marker,directive_*}
  level 4  specs/drivers/c03_driver.py  the ASSUMED parsimonious traversal of one `line` node (children first, left to
                                    right, then visit_<rule>), written as Python whose body calls the REAL visitors; the
                                    protocol invariant INV is proved per line kind, and the end-of-input requirement of the
                                    property ("nothing pending") is an obligation of `end_of_input`.

Oracle: the ghost parameters g_* of the driver steps follow the *documented rule* of the property statement (an
attribute's doc is its same-line comment plus the following comment-only lines up to the next statement or blank line;
the header comment is the comment block before the first statement / blank line of a section), stated per source line -
not per visitor event, which is how the code works (deferred flush).
"""
import z3
from pyvc.spec import contract, class_spec, inline_ok
from pyvc.values import (Int, Bool, Str, Opt, Rec, SeqOf, ObjOf, MutObjOf, ListK, ClosureOf, Const, SymSeq, PyList, Obj,
                         SymClosure, OptV, RecorderK, TupleK)
from pyvc.speclib import AND, OR, NOT, IMPLIES, IFF, ITE, EQ, IS_NONE, VAL, ISINST, LEN, AT, smt
from pyvc import speclib
from .common import SERIALIZABLE, ANY, ATTRIBUTE, FIELD, PADDING, CONSTANT, VOID_T, COMPOSITE

P = ["C03"]
P17 = ["C03", "C17"]

DSB = "pydsdl._data_schema_builder.DataSchemaBuilder"
SMODE = "pydsdl._data_schema_builder.SerializationMode"
DELIM_MODE = "pydsdl._data_schema_builder.DelimitedSerializationMode"
SEALED_MODE = "pydsdl._data_schema_builder.SealedSerializationMode"
DTB = "pydsdl._data_type_builder.DataTypeBuilder"
SSP = "pydsdl._parser.StatementStreamProcessor"
PTP = "pydsdl._parser._ParseTreeProcessor"
RDF = "pydsdl._dsdl.ReadableDSDLFile"


# ------------------------------------------------------------------------------------------------ sequence vocabulary
def _ref(x):
    return x.ref if isinstance(x, Obj) else x


def _forall(i, body, pats):
    """Quantifier with the given triggers where z3 accepts them (a lambda-valued array cannot be a trigger)."""
    try:
        return z3.ForAll([i], body, patterns=pats)
    except z3.Z3Exception:
        return z3.ForAll([i], body)


def IMP(a, b):
    """Implication whose consequent (possibly a thunk) is not even built when the antecedent is concretely false."""
    if isinstance(a, bool):
        return speclib._force(b) if a else True
    return IMPLIES(a, b)


def SAME(a, b):
    """`a is b` (objects) / equal immutable values."""
    if smt():
        from pyvc import mutstate

        return speclib._b(mutstate.identical(speclib.CTX.engine, speclib.CTX, a, b))
    if isinstance(a, (str, int, bool)) or a is None:
        return a == b and type(a) is type(b)
    return a is b


def SEQ_SAME(new, old):
    """Same length, pointwise the same objects."""
    if smt():
        if isinstance(new, PyList) or isinstance(old, PyList):
            n_items = new.items if isinstance(new, PyList) else None
            o_items = old.items if isinstance(old, PyList) else None
            if n_items is not None and o_items is not None:
                return AND(len(n_items) == len(o_items), *[SAME(x, y) for x, y in zip(n_items, o_items)])
        i = z3.FreshConst(z3.IntSort(), "i")
        return z3.And(new.length == old.length,
                      _forall(i, z3.Implies(z3.And(0 <= i, i < old.length),
                                            z3.Select(new.arr, i) == z3.Select(old.arr, i)), [z3.Select(new.arr, i)]))
    return len(new) == len(old) and all(x is y for x, y in zip(new, old))


def SEQ_APPENDED(new, old, x=None):
    """new == old ++ [x]   (x omitted: new is old plus exactly one more element)."""
    if smt():
        i = z3.FreshConst(z3.IntSort(), "i")
        cs = [new.length == old.length + 1,
              _forall(i, z3.Implies(z3.And(0 <= i, i < old.length), z3.Select(new.arr, i) == z3.Select(old.arr, i)),
                      [z3.Select(new.arr, i)])]
        if x is not None:
            cs.append(z3.Select(new.arr, old.length) == _ref(x))
        return z3.And(*cs)
    return len(new) == len(old) + 1 and all(a is b for a, b in zip(new, old)) and (x is None or new[-1] is x)


def SEQ_CONCAT(res, a, b):
    """res == a ++ b"""
    if smt():
        i = z3.FreshConst(z3.IntSort(), "i")
        j = z3.FreshConst(z3.IntSort(), "j")
        return z3.And(
            res.length == a.length + b.length,
            _forall(i, z3.Implies(z3.And(0 <= i, i < a.length), z3.Select(res.arr, i) == z3.Select(a.arr, i)),
                    [z3.Select(res.arr, i)]),
            _forall(j, z3.Implies(z3.And(0 <= j, j < b.length), z3.Select(res.arr, a.length + j) == z3.Select(b.arr, j)),
                    [z3.Select(b.arr, j)]))
    return len(res) == len(a) + len(b) and all(x is y for x, y in zip(res, list(a) + list(b)))


def LAST(seq):
    if smt():
        return seq.at(speclib.CTX, seq.length - 1)
    return seq[-1]


# ------------------------------------------------------------------------------------------------ level 1: schema builder
@class_spec(SMODE)
class _SModeSpec:
    fields = {}


@class_spec(DELIM_MODE)
class _DelimModeSpec:
    fields = dict(extent=Int)


@class_spec(DSB)
class _DSBSpec:
    fields = dict(
        _fields=SeqOf(ObjOf(FIELD)),
        _constants=SeqOf(ObjOf(CONSTANT)),
        _serialization_mode=Opt(ObjOf(SMODE)),
        _is_union=Bool,
        _bit_length_computed_at_least_once=Bool,
        _doc=Str,
    )
    mutable = ["_fields", "_constants", "_serialization_mode", "_is_union", "_bit_length_computed_at_least_once", "_doc"]


inline_ok(DSB + ".doc", DSB + ".serialization_mode", DSB + ".union", DELIM_MODE + ".__init__",
          why="trivial accessor / constructor of the schema builder: inlined (its body is its own strongest contract)")

_DSB_FIELDS = ["_fields", "_constants", "_serialization_mode", "_is_union", "_bit_length_computed_at_least_once", "_doc"]


def dsb_unchanged(new, old, *except_):
    """Frame of a schema builder: every field not listed is what it was."""
    cs = []
    for f in _DSB_FIELDS:
        if f in except_:
            continue
        a, b = getattr(new, f), getattr(old, f)
        if f in ("_fields", "_constants"):
            cs.append(SEQ_SAME(a, b))
        else:
            cs.append(SAME(a, b))
    return AND(*cs)


@contract(DSB + ".__init__", props=P)
class _DSBInit:
    def post(s):
        b = s.self
        return {"empty": AND(LEN(b._fields) == 0, LEN(b._constants) == 0),
                "no-mode": IS_NONE(b._serialization_mode),
                "flags": AND(NOT(b._is_union), NOT(b._bit_length_computed_at_least_once)),
                "no-doc": EQ(b._doc, "")}


@contract(DSB + ".fields", props=P)
class _DSBFields:
    returns = SeqOf(ObjOf(FIELD))

    def post(s):
        return {"the-fields": SEQ_SAME(s.result, s.self._fields), "frame": dsb_unchanged(s.self, s.old)}


@contract(DSB + ".constants", props=P)
class _DSBConstants:
    returns = SeqOf(ObjOf(CONSTANT))

    def post(s):
        return {"the-constants": SEQ_SAME(s.result, s.self._constants), "frame": dsb_unchanged(s.self, s.old)}


@contract(DSB + ".attributes", props=P)
class _DSBAttributes:
    """Statement: fields and paddings in source order, then constants in source order."""
    returns = SeqOf(ObjOf(ATTRIBUTE))

    def post(s):
        return {"fields-then-constants": SEQ_CONCAT(s.result, s.self._fields, s.self._constants),
                "frame": dsb_unchanged(s.self, s.old)}


@contract(DSB + ".set_comment", props=P)
class _DSBSetComment:
    params = dict(comment=Str)
    modifies = ["_doc"]

    def post(s):
        return {"doc": EQ(s.self._doc, s.comment), "frame": dsb_unchanged(s.self, s.old, "_doc")}


@contract(DSB + ".add_field", props=P)
class _DSBAddField:
    params = dict(field=ObjOf(FIELD))
    modifies = ["_fields"]
    raises = {"BitLengthAnalysisError": lambda s: AND(s.old._is_union, s.old._bit_length_computed_at_least_once)}

    def post(s):
        return {"appended-last": SEQ_APPENDED(s.self._fields, s.old._fields, s.field),
                "frame": dsb_unchanged(s.self, s.old, "_fields")}


@contract(DSB + ".add_constant", props=P)
class _DSBAddConstant:
    params = dict(constant=ObjOf(CONSTANT))
    modifies = ["_constants"]

    def post(s):
        return {"appended-last": SEQ_APPENDED(s.self._constants, s.old._constants, s.constant),
                "frame": dsb_unchanged(s.self, s.old, "_constants")}


@contract(DSB + ".set_serialization_mode", props=P)
class _DSBSetMode:
    params = dict(mode=ObjOf(SMODE))
    modifies = ["_serialization_mode"]

    def pre(s):
        return {"mode-not-set-yet": IS_NONE(s.self._serialization_mode)}

    def post(s):
        return {"mode": AND(NOT(IS_NONE(s.self._serialization_mode)), lambda: SAME(VAL(s.self._serialization_mode), s.mode)),
                "frame": dsb_unchanged(s.self, s.old, "_serialization_mode")}


@contract(DSB + ".make_union", props=P)
class _DSBMakeUnion:
    modifies = ["_is_union"]

    def pre(s):
        return {"not-yet-union": NOT(s.self._is_union)}

    def post(s):
        return {"union": s.self._is_union, "frame": dsb_unchanged(s.self, s.old, "_is_union")}


# ------------------------------------------------------------------------------------------------ attributes (assumed)
@contract(ATTRIBUTE + ".__init__", props=P)
class _AttributeInitAssumed:
    """Field(...) / Attribute(...): stores what it is given; names are C05's business (may reject)."""
    params = dict(data_type=ObjOf(SERIALIZABLE), name=Str, doc=Str)
    raises = {"InvalidNameError": None}
    verify = False
    assumed = "Attribute.__init__ stores type/name/doc as given (3 assignments); the name check is the subject of C05"

    def post(s):
        return {"type": SAME(s.self._data_type, s.data_type), "name": EQ(s.self._name, s.name), "doc": EQ(s.self._doc, s.doc)}


@contract(PADDING + ".__init__", props=P)
class _PaddingInitAssumed:
    params = dict(data_type=ObjOf(SERIALIZABLE), doc=Str)
    raises = {"TypeParameterError": lambda s: NOT(ISINST(s.data_type, "VoidType"))}
    verify = False
    assumed = "PaddingField.__init__ forwards (type, '', doc) to Attribute.__init__ after the void-type check"

    def post(s):
        return {"type": SAME(s.self._data_type, s.data_type), "name": EQ(s.self._name, ""), "doc": EQ(s.self._doc, s.doc)}


def is_string_value(v):
    return ISINST(v, "pydsdl._expression._primitive.String")


@contract(CONSTANT + ".__init__", props=P)
class _ConstantInitAssumed:
    params = dict(data_type=ObjOf(SERIALIZABLE), name=Str, value=ObjOf(ANY), doc=Str)
    raises = {"InvalidNameError": None, "InvalidTypeError": None, "InvalidConstantValueError": None}
    verify = False
    assumed = ("Constant.__init__ is verified under C12 (accepted iff compliant; value stored as given, a one-character "
               "string as its code point); here only what it stores is used")

    def post(s):
        return {"type": SAME(s.self._data_type, s.data_type), "name": EQ(s.self._name, s.name), "doc": EQ(s.self._doc, s.doc),
                "value-as-given": IMPLIES(NOT(is_string_value(s.value)), lambda: SAME(s.self._value, s.value))}


@contract("pydsdl._expression._primitive.Rational.as_native_integer", props=P)
class _AsNativeIntegerAssumed:
    returns = Int
    raises = {"InvalidOperandError": None}
    verify = False
    assumed = "Rational.as_native_integer: the numerator of an integral rational, InvalidOperandError otherwise (C04)"


# ------------------------------------------------------------------------------------------------ level 2: type builder
SITES = [DTB + ".on_field", DTB + ".on_constant", DTB + ".on_padding_field"]
T_NONE, T_FIELD, T_CONST, T_PAD = 0, 1, 2, 3
PendingK = ClosureOf(SITES, [ObjOf(SERIALIZABLE), Str, ObjOf(ANY)])


@class_spec(RDF)
class _RDFSpec:
    fields = {}


DSDLFILE = "pydsdl._dsdl.DSDLFile"


def FILE_PATH(d):
    """The file path of a definition (ghost function of the definition object; a Path, compared as a value)."""
    if smt():
        from pyvc.values import RefSort

        return speclib.CTX.engine.uf("ghost!file_path", RefSort, z3.StringSort())(d.ref)
    return d.file_path


for _cls in (DSDLFILE, RDF):
    @contract(_cls + ".file_path", props=P17)
    class _FilePathIface:
        returns = Str
        verify = False
        assumed = "interface: the file path of a definition is a fixed attribute of the definition object"

        def post(s):
            return {"file-path": EQ(s.result, FILE_PATH(s.self))}


@class_spec(DTB)
class _DTBSpec:
    fields = dict(
        _definition=ObjOf(RDF),
        _lookup_definitions=SeqOf(ObjOf(RDF)),
        _definition_visitors=SeqOf(ObjOf("pydsdl._dsdl.DefinitionVisitor")),
        _print_output_handler=RecorderK("print_output_handler"),
        _allow_unregulated_fixed_port_id=Bool,
        _element_callback=PendingK,
        _structs=ListK(MutObjOf(DSB)),
        _is_deprecated=Bool,
    )
    mutable = ["_element_callback", "_structs", "_is_deprecated"]
    owns_state = True


_DSBSpec.owns_state = True
from pyvc.spec import REG as _REG

_REG.classes[DSB].owns_state = True


class _View:
    def __init__(self, **kw):
        self.__dict__.update(kw)


def PENDING(b):
    """The pending attribute statement of a builder: tag (0 none, 1 field, 2 constant, 3 padding) and the statement's
    type / name / value - read off the stored callback (abstraction function of `_element_callback`)."""
    if isinstance(b, _View) and "_ghost_pending" in b.__dict__:
        return b._ghost_pending  # a specification-side view of a builder whose pending statement is given by ghost state
    cb = b._element_callback
    if smt():
        from pyvc import mutstate

        tag, slots, owner = mutstate.closure_view(speclib.CTX.engine, cb, SITES)
        return _View(tag=tag, T=slots[0], name=slots[1], value=slots[2])
    if cb is None:
        return _View(tag=0, T=None, name=None, value=None)
    import inspect
    from pydsdl._data_type_builder import DataTypeBuilder

    site = cb.__qualname__.split(".")[-3]
    tag = {"on_field": 1, "on_constant": 2, "on_padding_field": 3}[site]
    free = dict(zip(cb.__code__.co_freevars, [c.cell_contents for c in cb.__closure__]))
    names = [n for n in inspect.signature(getattr(DataTypeBuilder, site)).parameters][1:]
    slots = [free.get(n) for n in names] + [None, None, None]
    return _View(tag=tag, T=slots[0], name=slots[1], value=slots[2])


def SECS(b):
    st = b._structs
    return st.items if smt() else st


def CUR(b):
    return SECS(b)[-1]


def NO_PENDING(b):
    return PENDING(b).tag == 0


def WF(b):
    """Representation invariant of the builder (established by __init__, preserved by every on_* method)."""
    p = PENDING(b)
    return AND(IMPLIES(p.tag == T_PAD, lambda: ISINST(p.T, "VoidType")),
               # a serialization mode, once set, is one of the two concrete modes (never the abstract base)
               *[_mode_wf(sec._serialization_mode) for sec in SECS(b)])


def _mode_wf(m):
    if smt():
        if isinstance(m, OptV):
            return OR(speclib._b(m.is_none), ISINST(m.val, "DelimitedSerializationMode", "SealedSerializationMode"))
        if m is None:
            return True
    return m is None or ISINST(m, "DelimitedSerializationMode", "SealedSerializationMode")


def commit_clauses(s, doc):
    return commit_between(s.self, s.old, doc)


def commit_between(new_b, old_b, doc, doc_kept=True, flags_kept=True):
    """Effect of committing the pending statement of the pre-state (if any) with the given doc text: exactly one
    attribute, built from exactly that statement, appended to the list of its kind in the CURRENT section; nothing else
    moves."""
    new_secs, old_secs = SECS(new_b), SECS(old_b)
    cn, co = new_secs[-1], old_secs[-1]
    p = PENDING(old_b)
    is_f = OR(p.tag == T_FIELD, p.tag == T_PAD)
    is_c = p.tag == T_CONST
    out = {
        "nothing-pending-nothing-committed": IMPLIES(p.tag == T_NONE, lambda: AND(SEQ_SAME(cn._fields, co._fields),
                                                                                 SEQ_SAME(cn._constants, co._constants))),
        "field-committed-once-at-the-end": IMPLIES(is_f, lambda: AND(SEQ_APPENDED(cn._fields, co._fields),
                                                                    SEQ_SAME(cn._constants, co._constants))),
        "field-as-declared": IMPLIES(is_f, lambda: AND(
            SAME(LAST(cn._fields)._data_type, p.T),
            EQ(LAST(cn._fields)._name, ITE(p.tag == T_PAD, "", p.name)),
            EQ(LAST(cn._fields)._doc, doc),
            IFF(ISINST(LAST(cn._fields), "PaddingField"), p.tag == T_PAD))),
        "constant-committed-once-at-the-end": IMPLIES(is_c, lambda: AND(SEQ_APPENDED(cn._constants, co._constants),
                                                                       SEQ_SAME(cn._fields, co._fields))),
        "constant-as-declared": IMPLIES(is_c, lambda: AND(
            SAME(LAST(cn._constants)._data_type, p.T),
            EQ(LAST(cn._constants)._name, p.name),
            EQ(LAST(cn._constants)._doc, doc),
            IMPLIES(NOT(is_string_value(p.value)), lambda: SAME(LAST(cn._constants)._value, p.value)))),
        "same-sections": len(new_secs) == len(old_secs),
        "section-frame": dsb_unchanged(cn, co, "_fields", "_constants", *(([] if doc_kept else ["_doc"]) + (
            [] if flags_kept else ["_is_union", "_serialization_mode", "_bit_length_computed_at_least_once"]))),
        "other-sections-untouched": AND(*[dsb_unchanged(a, b) for a, b in zip(new_secs[:-1], old_secs[:-1])]),
    }
    if flags_kept:
        out["deprecated-unchanged"] = EQ(new_b._is_deprecated, old_b._is_deprecated)
    return out


def commit_raises():
    """What committing a pending statement may raise (conditions of the attribute constructors are C05/C12's)."""
    return {
        "BitLengthAnalysisError": lambda s: AND(OR(PENDING(s.old).tag == T_FIELD, PENDING(s.old).tag == T_PAD),
                                                CUR(s.old)._is_union, CUR(s.old)._bit_length_computed_at_least_once),
        "InvalidNameError": None,            # conditions of the attribute constructors: C05 (names), C12 (constants)
        "InvalidTypeError": None,
        "InvalidConstantValueError": None,
    }


def _one_sided(d):
    """raises-clauses that are only claimed in the direction `raise X => cond` (the converse is C05/C12's business)."""
    return d


def havoc_sections(s):
    out = [(s.self, "_element_callback")]
    for sec in SECS(s.self):
        out += [(sec, "_fields"), (sec, "_constants")]
    return out


def pending_is(b, tag, T=None, name=None, value=None):
    p = PENDING(b)
    cs = [p.tag == tag]
    if T is not None:
        cs.append(lambda: SAME(p.T, T))
    if name is not None:
        cs.append(lambda: EQ(p.name, name))
    if value is not None:
        cs.append(lambda: SAME(p.value, value))
    return AND(*cs)


def _attr_raises(extra=None):
    d = {}
    d["InvalidDirectiveError"] = lambda s: ISINST(VAL(CUR(s.old)._serialization_mode), "DelimitedSerializationMode") \
        if not smt() else _is_delimited(CUR(s.old)._serialization_mode)
    d.update(commit_raises())
    return d


def _is_delimited(m):
    """The section's serialization mode is the delimited one (extent set)."""
    if smt():
        if isinstance(m, OptV):
            return AND(NOT(speclib._b(m.is_none)), ISINST(m.val, "DelimitedSerializationMode"))
        if m is None:
            return False
        return ISINST(m, "DelimitedSerializationMode")
    return ISINST(m, "DelimitedSerializationMode")


@contract(DTB + ".__init__", props=P)
class _DTBInit:
    """Base case of the protocol invariant: a fresh builder has one empty section and nothing pending."""
    params = dict(definition=ObjOf(RDF), lookup_definitions=SeqOf(ObjOf(RDF)),
                  definition_visitors=SeqOf(ObjOf("pydsdl._dsdl.DefinitionVisitor")),
                  print_output_handler=RecorderK("print_output_handler"), allow_unregulated_fixed_port_id=Bool)

    def post(s):
        b = s.self
        return {"one-section": len(SECS(b)) == 1, "section-empty": dsb_is_empty(SECS(b)[0]), "nothing-pending": NO_PENDING(b),
                "not-deprecated": NOT(b._is_deprecated), "wf": WF(b), "no-print-yet": len(_calls(b)) == 0,
                "definition": SAME(b._definition, s.definition)}


_TWO_SECTION_INSTANCES = lambda: [{"self._structs": ListK(MutObjOf(DSB))}, {"self._structs": ListK(MutObjOf(DSB), MutObjOf(DSB))}]


@contract(DTB + ".on_header_comment", props=P)
class _OnHeaderComment:
    params = dict(comment=Str)
    instances = _TWO_SECTION_INSTANCES
    havoc = lambda s: [(CUR(s.self), "_doc")]

    def post(s):
        new_secs, old_secs = SECS(s.self), SECS(s.old)
        return {"doc-of-current-section": EQ(CUR(s.self)._doc, s.comment),
                "section-frame": dsb_unchanged(new_secs[-1], old_secs[-1], "_doc"),
                "other-sections-untouched": AND(*[dsb_unchanged(a, b) for a, b in zip(new_secs[:-1], old_secs[:-1])]),
                "pending-unchanged": _pending_same(s.self, s.old),
                "deprecated-unchanged": EQ(s.self._is_deprecated, s.old._is_deprecated)}


def _pending_same(new, old):
    p, q = PENDING(new), PENDING(old)
    return AND(p.tag == q.tag, IMPLIES(NOT(p.tag == T_NONE), lambda: AND(
        SAME(p.T, q.T), IMPLIES(NOT(p.tag == T_PAD), lambda: EQ(p.name, q.name)),
        IMPLIES(p.tag == T_CONST, lambda: SAME(p.value, q.value)))))


@contract(DTB + ".on_attribute_comment", props=P)
class _OnAttributeComment:
    params = dict(comment=Str)
    instances = _TWO_SECTION_INSTANCES
    havoc = havoc_sections
    raises = commit_raises()

    def pre(s):
        return {"wf": WF(s.self)}

    def post(s):
        out = {"nothing-pending-afterwards": NO_PENDING(s.self), "wf": WF(s.self)}
        out.update(commit_clauses(s, s.comment))
        return out


@contract(DTB + ".on_field", props=P)
class _OnField:
    params = dict(field_type=ObjOf(SERIALIZABLE), name=Str)
    instances = _TWO_SECTION_INSTANCES
    havoc = havoc_sections
    raises = _attr_raises()

    def pre(s):
        return {"wf": WF(s.self)}

    def post(s):
        out = {"exactly-this-statement-pending": pending_is(s.self, T_FIELD, s.field_type, s.name), "wf": WF(s.self)}
        out.update(commit_clauses(s, ""))
        return out


@contract(DTB + ".on_constant", props=P)
class _OnConstant:
    params = dict(constant_type=ObjOf(SERIALIZABLE), name=Str, value=ObjOf(ANY))
    instances = _TWO_SECTION_INSTANCES
    havoc = havoc_sections
    raises = _attr_raises()

    def pre(s):
        return {"wf": WF(s.self)}

    def post(s):
        out = {"exactly-this-statement-pending": pending_is(s.self, T_CONST, s.constant_type, s.name, s.value),
               "wf": WF(s.self)}
        out.update(commit_clauses(s, ""))
        return out


@contract(DTB + ".on_padding_field", props=P)
class _OnPaddingField:
    params = dict(padding_field_type=ObjOf(VOID_T))
    instances = _TWO_SECTION_INSTANCES
    havoc = havoc_sections
    raises = _attr_raises()

    def pre(s):
        return {"wf": WF(s.self)}

    def post(s):
        out = {"exactly-this-statement-pending": pending_is(s.self, T_PAD, s.padding_field_type), "wf": WF(s.self)}
        out.update(commit_clauses(s, ""))
        return out


def _same_section(a, b):
    if smt():
        return a.ref == b.ref
    return a is getattr(b, "_orig", b)


def sections_content_same(new, old):
    """No attribute committed, no doc changed: the lists and docs of all sections are what they were."""
    ns_, os_ = SECS(new), SECS(old)
    return AND(len(ns_) == len(os_), *[AND(SEQ_SAME(a._fields, b._fields), SEQ_SAME(a._constants, b._constants),
                                          EQ(a._doc, b._doc), _same_section(a, b))
                                      for a, b in zip(ns_, os_)])


def dsb_is_empty(b):
    return AND(LEN(b._fields) == 0, LEN(b._constants) == 0, IS_NONE(b._serialization_mode), NOT(b._is_union),
               NOT(b._bit_length_computed_at_least_once), EQ(b._doc, ""))


@contract(DTB + ".on_service_response_marker", props=P)
class _OnMarker:
    instances = _TWO_SECTION_INSTANCES
    raises = {"InvalidDefinitionError": lambda s: len(SECS(s.old)) > 1}
    havoc = lambda s: [(s.self, "_structs", ListK(MutObjOf(DSB), MutObjOf(DSB)))]

    def pre(s):
        # protocol: the caller flushes first - a statement still pending here would be committed into the response section
        return {"no-pending-attribute": NO_PENDING(s.self), "wf": WF(s.self)}

    def post(s):
        new_secs, old_secs = SECS(s.self), SECS(s.old)
        return {"two-sections": len(new_secs) == 2,
                "request-section-kept": AND(_same_section(new_secs[0], old_secs[0]),
                                            dsb_unchanged(new_secs[0], old_secs[0])),
                "response-section-empty": dsb_is_empty(new_secs[-1]),
                "still-nothing-pending": NO_PENDING(s.self),
                "deprecated-unchanged": EQ(s.self._is_deprecated, s.old._is_deprecated)}


# ---- directives
DIRECTIVE_NAMES = ["print", "assert", "extent", "sealed", "union", "deprecated"]


class _OtherName(type(Str)):
    """A directive name that is none of the known ones."""

    def build(self, ctx, mk):
        t = mk("", z3.StringSort())
        ctx.assume(z3.And(*[t != z3.StringVal(n) for n in DIRECTIVE_NAMES]))
        return t

    def __repr__(self):
        return "other-name"


def STR_OF(v):
    """str(v) of an expression value."""
    if smt():
        return speclib.CTX.engine.lib.bi_str(speclib.CTX, v)
    return str(v)


def _dir_instances():
    out = []
    for secs in (ListK(MutObjOf(DSB)), ListK(MutObjOf(DSB), MutObjOf(DSB))):
        for n in DIRECTIVE_NAMES + [_OtherName()]:
            out.append({"self._structs": secs, "directive_name": n})
    return out


def _known(name):
    return isinstance(name, str) and name in DIRECTIVE_NAMES


def _is(name, which):
    return isinstance(name, str) and name == which


def _has_attributes(sec):
    return LEN(sec._fields) + LEN(sec._constants) > 0


def _val(s):
    return s.associated_expression_value


def _val_isinst(s, clsname):
    v = _val(s)
    if smt():
        if isinstance(v, OptV):
            return AND(NOT(speclib._b(v.is_none)), ISINST(v.val, clsname))
        if v is None:
            return False
    return ISINST(v, clsname)


BOOLEAN_XQ = "pydsdl._expression._primitive.Boolean"
RATIONAL_XQ = "pydsdl._expression._primitive.Rational"


def _bool_value(s):
    v = VAL(_val(s))
    return speclib.AS(v, BOOLEAN_XQ)._value


def _directive_rejected(s):
    """The misuse rules of the directives (from the in-code messages / Specification 3.6): when InvalidDirectiveError."""
    n, old = s.directive_name, s.old
    cur = CUR(old)
    none = IS_NONE(_val(s))
    if not _known(n):
        return True
    if n == "print":
        return False
    if n == "assert":
        return OR(none, NOT(_val_isinst(s, BOOLEAN_XQ)))
    if n == "extent":
        return OR(NOT(IS_NONE(cur._serialization_mode)), none, NOT(_val_isinst(s, RATIONAL_XQ)))
    if n == "sealed":
        return OR(NOT(IS_NONE(cur._serialization_mode)), NOT(none))
    if n == "union":
        return OR(NOT(none), cur._is_union, _has_attributes(cur))
    if n == "deprecated":
        return OR(NOT(none), old._is_deprecated, len(SECS(old)) > 1, _has_attributes(cur))
    raise AssertionError(n)


def _assert_fails(s):
    """@assert with a boolean expression that evaluates to false."""
    if not _is(s.directive_name, "assert") or _val(s) is None:
        return False
    return AND(_val_isinst(s, BOOLEAN_XQ), lambda: NOT(_bool_value(s)))


def _calls(b):
    h = b._print_output_handler
    if smt():
        return h.calls.items
    return h.calls


class _RecorderGrown(type(Str)):
    """The print handler after the call: one more recorded call iff the directive is @print (arguments unconstrained
    here; the postcondition states them)."""

    def __init__(self, old, name):
        self.old, self.name = old, name

    def build(self, ctx, mk):
        from pyvc.values import Recorder

        r = Recorder(self.old.name)
        r.calls = PyList(list(self.old.calls.items))
        if _is(self.name, "print"):
            r.calls.items.append((mk("!line", z3.IntSort()), mk("!text", z3.StringSort())))
        return r


@contract(DTB + ".on_directive", props=P17)
class _OnDirective:
    params = dict(line_number=Int, directive_name=Str, associated_expression_value=Opt(ObjOf(ANY)))
    instances = _dir_instances
    havoc = lambda s: [(s.self, "_is_deprecated"), (CUR(s.self), "_is_union"), (CUR(s.self), "_serialization_mode"),
                       (s.self, "_print_output_handler", _RecorderGrown(s.self._print_output_handler, s.directive_name))]
    raises = {
        "AssertionCheckFailureError": lambda s: _assert_fails(s),
        "InvalidDirectiveError": _directive_rejected,
        "InvalidOperandError": None,  # @extent with a non-integral rational (Rational.as_native_integer, C04)
    }

    def pre(s):
        # protocol: the caller flushes first (`attributes` does not see a pending statement: @union / @deprecated
        # "before the first attribute" would otherwise be accepted after one)
        return {"no-pending-attribute": NO_PENDING(s.self), "wf": WF(s.self)}

    def post(s):
        n = s.directive_name
        cn, co = CUR(s.self), CUR(s.old)
        new_calls, old_calls = _calls(s.self), _calls(s.old)
        out = {
            "no-attribute-moves": sections_content_same(s.self, s.old),
            "still-nothing-pending": NO_PENDING(s.self),
            "computed-flag-kept": AND(*[EQ(a._bit_length_computed_at_least_once, b._bit_length_computed_at_least_once)
                                        for a, b in zip(SECS(s.self), SECS(s.old))]),
            "other-sections-untouched": AND(*[dsb_unchanged(a, b) for a, b in zip(SECS(s.self)[:-1], SECS(s.old)[:-1])]),
            "union-flag": IFF(cn._is_union, OR(co._is_union, _is(n, "union"))),
            "deprecated-flag": IFF(s.self._is_deprecated, OR(s.old._is_deprecated, _is(n, "deprecated"))),
            "mode-kept-unless-set": IMP(not (_is(n, "sealed") or _is(n, "extent")),
                                            lambda: SAME(cn._serialization_mode, co._serialization_mode)),
            "sealed": IMP(_is(n, "sealed"), lambda: ISINST(VAL(cn._serialization_mode), "SealedSerializationMode")),
            "delimited": IMP(_is(n, "extent"), lambda: ISINST(VAL(cn._serialization_mode), "DelimitedSerializationMode")),
            # C17: @print output is delivered exactly once per evaluated directive, with the line of that directive
            "print-delivered-exactly-once": (len(new_calls) == len(old_calls) + (1 if _is(n, "print") else 0)),
            "print-carries-line-and-text": IMP(_is(n, "print"), lambda: AND(
                len(new_calls[-1]) == 2, EQ(new_calls[-1][0], s.line_number),
                EQ(new_calls[-1][1], ITE(IS_NONE(_val(s)), "", lambda_free_str(s))))),
        }
        return out


def lambda_free_str(s):
    v = _val(s)
    if smt():
        if isinstance(v, OptV):
            return STR_OF(v.val)
        return STR_OF(v) if v is not None else ""
    return str(v) if v is not None else ""


# ------------------------------------------------------------------------------------------------ builder -> composite
from .common import SERVICE, DELIMITED, VersionK

STRUCTURE = "pydsdl._serializable._composite.StructureType"
UNION = "pydsdl._serializable._composite.UnionType"


@class_spec(DELIMITED)
class _DelimitedSpec:
    fields = dict(_inner=ObjOf(COMPOSITE), _extent=Int)


def _def_ghost(d, name, kind):
    """Attributes of a definition object that are derived from its file path (fixed for the object)."""
    if smt():
        from pyvc.values import RefSort

        eng = speclib.CTX.engine
        return kind.build(speclib.CTX, lambda suffix, sort: eng.uf("ghost!def!" + name + suffix, RefSort, sort)(d.ref))
    return getattr(d, name)


def _def_iface(name, kind):
    for _cls in (DSDLFILE, RDF):
        @contract(_cls + "." + name, props=P)
        class _DefIface:
            returns = kind
            verify = False
            assumed = "interface: a path-derived attribute of a definition is a fixed attribute of the definition object"

            def post(s, name=name, kind=kind):
                return {name: SAME(s.result, _def_ghost(s.self, name, kind))}


_def_iface("full_name", Str)
_def_iface("version", VersionK)
_def_iface("fixed_port_id", Opt(Int))


def _composite_init_contract(q):
    @contract(q + ".__init__", props=P)
    class _CompositeInitAssumed:
        params = dict(name=Str, version=VersionK, attributes=SeqOf(ObjOf(ATTRIBUTE)), deprecated=Bool, fixed_port_id=Opt(Int),
                      source_file_path=Str, has_parent_service=Bool, doc=Str)
        raises = {"InvalidDefinitionError": None}  # name / version / port-ID / attribute rules: C05, C02
        verify = False
        assumed = ("StructureType/UnionType.__init__ -> CompositeType.__init__ store what they are given (attributes as a "
                   "list in the given order); when they reject is the subject of C05/C02")

        def post(s):
            t = s.self
            return {"name": EQ(t._name, s.name), "version": SAME(t._version, s.version),
                    "attributes": SEQ_SAME(t._attributes, s.attributes), "deprecated": EQ(t._deprecated, s.deprecated),
                    "port": SAME(t._fixed_port_id, s.fixed_port_id), "path": EQ(t._source_file_path, s.source_file_path),
                    "parent": EQ(t._has_parent_service, s.has_parent_service), "doc": EQ(t._doc, s.doc)}


_composite_init_contract(STRUCTURE)
_composite_init_contract(UNION)


@contract(DELIMITED + ".__init__", props=P)
class _DelimitedInitAssumed:
    publishes_args = True
    params = dict(inner=ObjOf(COMPOSITE), extent=Int)
    raises = {"InvalidDefinitionError": None}
    verify = False
    assumed = "DelimitedType.__init__ keeps the wrapped type, copies its descriptive attributes and stores the extent (C02/C14)"

    def post(s):
        t, i = s.self, s.inner
        return {"inner": SAME(t._inner, i), "extent": t._extent == s.extent, "name": EQ(t._name, i._name),
                "version": SAME(t._version, i._version), "attributes": SEQ_SAME(t._attributes, i._attributes),
                "deprecated": EQ(t._deprecated, i._deprecated), "port": SAME(t._fixed_port_id, i._fixed_port_id),
                "path": EQ(t._source_file_path, i._source_file_path), "parent": EQ(t._has_parent_service, i._has_parent_service),
                "doc": EQ(t._doc, i._doc)}


@contract(SERVICE + ".__init__", props=P)
class _ServiceInitAssumed:
    publishes_args = True
    params = dict(request=ObjOf(COMPOSITE), response=ObjOf(COMPOSITE), fixed_port_id=Opt(Int))
    raises = {"InvalidDefinitionError": None, "ValueError": None}
    verify = False
    assumed = ("ServiceType.__init__ keeps the two parts, takes name (the parts' common namespace), version, deprecation, "
               "path and doc from the request part and stores the port-ID (C05)")

    def post(s):
        t, rq = s.self, s.request
        return {"request": SAME(t._request_type, s.request), "response": SAME(t._response_type, s.response),
                "port": SAME(t._fixed_port_id, s.fixed_port_id), "deprecated": EQ(t._deprecated, rq._deprecated),
                "version": SAME(t._version, rq._version), "path": EQ(t._source_file_path, rq._source_file_path),
                "not-a-part": NOT(t._has_parent_service)}


def ROOT_OF(name):
    """First component of a dotted full name."""
    if smt():
        return speclib.CTX.engine.uf("ghost!root_of", z3.StringSort(), z3.StringSort())(Str.unwrap(name))
    return name.split(".")[0]


@contract(COMPOSITE + ".root_namespace", props=P)
class _RootNamespaceAssumed:
    returns = Str
    verify = False
    assumed = "CompositeType.root_namespace: first component of the full name (C15/C05)"

    def post(s):
        return {"first-component": EQ(s.result, ROOT_OF(s.self._name))}


def REGULATED_OK(is_service, port, ns):
    """The regulated port-ID ranges (tables of _port_id_ranges.py, C11/C15): uninterpreted here."""
    if smt():
        return speclib.CTX.engine.uf("ghost!regulated_ok", z3.BoolSort(), z3.IntSort(), z3.StringSort(), z3.BoolSort())(
            speclib._b(is_service), Int.unwrap(VAL(port)), Str.unwrap(ns))
    from pydsdl import _port_id_ranges as R

    return (R.is_valid_regulated_service_id if is_service else R.is_valid_regulated_subject_id)(port, ns)


for _fn, _svc in (("is_valid_regulated_subject_id", False), ("is_valid_regulated_service_id", True)):
    @contract("pydsdl._port_id_ranges." + _fn, props=P)
    class _RegulatedAssumed:
        params = dict(regulated_id=Int, root_namespace=Str)
        returns = Bool
        verify = False
        assumed = "range tables of regulated port-IDs (not part of C03)"

        def post(s, _svc=_svc):
            return {"table": IFF(s.result, REGULATED_OK(_svc, s.regulated_id, s.root_namespace))}


def INNER(t):
    """The structure / union behind a (possibly delimited) composite."""
    if smt():
        if isinstance(t, Obj) and t.fields is not None:
            return t.fields["_inner"] if t.cls.name == "DelimitedType" else t
        d = speclib.AS(t, DELIMITED)
        return _ObjIte(ISINST(t, "DelimitedType"), d._inner, t)
    return t.inner_type


class _ObjIte:
    """`a if c else b` of two abstract objects, read field-wise (specification-side only)."""

    def __init__(self, c, a, b):
        self.c, self.a, self.b = c, a, b

    def __getattr__(self, n):
        x, y = getattr(self.a, n), getattr(self.b, n)
        if isinstance(x, SymSeq):
            from pyvc.values import SymSeq as _S

            return _S(z3.If(self.c, x.arr, y.arr), z3.If(self.c, x.length, y.length), x.kind)
        if isinstance(x, OptV):
            return OptV(z3.If(self.c, speclib._b(x.is_none), speclib._b(y.is_none)), z3.If(self.c, x.val, y.val))
        if hasattr(x, "comps"):
            from pyvc.values import RecV

            return RecV(x.name, {k: z3.If(self.c, x.comps[k], y.comps[k]) for k in x.comps})
        return z3.If(self.c, x, y)

    @property
    def ref(self):
        return z3.If(self.c, self.a.ref, self.b.ref)


def _extent_of(t):
    """The extent stored by a delimited composite (meaningless otherwise)."""
    if smt():
        if isinstance(t, Obj) and t.fields is not None:
            return t.fields["_extent"] if t.cls.name == "DelimitedType" else z3.IntVal(-1)
        return speclib.AS(t, DELIMITED)._extent
    return t.extent


for _n, _k in (("short_name", Str), ("extent", Int)):
    @contract(COMPOSITE + "." + _n, props=P)
    class _CompositeAccessorAssumed:
        returns = _k
        verify = False
        assumed = "accessor of a composite used only to format an error message here (C02/C15)"


def IS_UNION(t):
    if smt() and isinstance(t, _ObjIte):
        return z3.If(t.c, ISINST(t.a, "UnionType"), ISINST(t.b, "UnionType"))
    return ISINST(t, "UnionType")


def mirrors(t, sec, name, version, deprecated, port, path, parent):
    """Statement: the section's fields (source order) then constants (source order) are the composite's attributes; @union,
    @deprecated, @sealed / @extent and the header comment are reflected in its kind, flags, extent and doc."""
    inner = INNER(t)
    mode = sec._serialization_mode
    return {
        "attributes-are-fields-then-constants": SEQ_CONCAT(inner._attributes, sec._fields, sec._constants),
        "same-attributes-seen-through-the-delimiter": SEQ_SAME(t._attributes, inner._attributes),
        "union-iff-marked": IFF(IS_UNION(inner), sec._is_union),
        "delimited-iff-extent-given": IFF(ISINST(t, "DelimitedType"), _is_delimited(mode)),
        "extent-as-given": IMPLIES(_is_delimited(mode), lambda: _extent_of(t) == speclib.AS(VAL(mode), DELIM_MODE).extent),
        "doc-is-the-header-comment": AND(EQ(t._doc, sec._doc), EQ(inner._doc, sec._doc)),
        "deprecated-iff-marked": AND(EQ(t._deprecated, deprecated), EQ(inner._deprecated, deprecated)),
        "name": EQ(t._name, name), "version": SAME(t._version, version), "port": SAME(t._fixed_port_id, port),
        "path": EQ(t._source_file_path, path), "parent": EQ(t._has_parent_service, parent),
        "not-a-service": NOT(ISINST(t, "ServiceType")),
    }


@contract(DTB + "._make_composite", props=P)
class _MakeComposite:
    params = dict(builder=MutObjOf(DSB), name=Str, version=VersionK, deprecated=Bool, fixed_port_id=Opt(Int),
                  source_file_path=Str, has_parent_service=Bool)
    returns = ObjOf(COMPOSITE)
    raises = {"MissingSerializationModeError": lambda s: IS_NONE(s.builder._serialization_mode),
              "InvalidDefinitionError": None}

    def pre(s):
        return {"mode-is-concrete": _mode_wf(s.builder._serialization_mode)}

    def post(s):
        out = mirrors(s.result, s.builder, s.name, s.version, s.deprecated, s.fixed_port_id, s.source_file_path,
                      s.has_parent_service)
        out["builder-untouched"] = dsb_unchanged(s.builder, s.old_builder)
        return out


def _definition_of(b):
    return b._definition


def _unregulated(s):
    """A fixed port-ID outside the regulated range of the kind (message / service) is rejected unless allowed."""
    d = _definition_of(s.old)
    port = _def_ghost(d, "fixed_port_id", Opt(Int))
    return AND(NOT(s.old._allow_unregulated_fixed_port_id), NOT(IS_NONE(port)),
               lambda: NOT(REGULATED_OK(len(SECS(s.old)) == 2, port, ROOT_OF(_def_ghost(d, "full_name", Str)))))


@contract(DTB + ".finalize", props=P)
class _Finalize:
    """Statement: the service split is reflected in the model's request / response parts; a message is the composite of the
    only section.  Requires that nothing is pending (established by the end of the traversal: `end_of_input`)."""
    returns = ObjOf(COMPOSITE)
    instances = _TWO_SECTION_INSTANCES
    raises = {"MissingSerializationModeError": lambda s: OR(*[IS_NONE(x._serialization_mode) for x in SECS(s.old)]),
              "UnregulatedFixedPortIDError": lambda s: _unregulated(s),
              "InvalidDefinitionError": None, "ValueError": None}

    def pre(s):
        return {"no-pending-attribute": NO_PENDING(s.self), "wf": WF(s.self)}

    def post(s):
        b, d = s.self, _definition_of(s.self)
        secs = SECS(b)
        nm, ver = _def_ghost(d, "full_name", Str), _def_ghost(d, "version", VersionK)
        port, path = _def_ghost(d, "fixed_port_id", Opt(Int)), FILE_PATH(d)
        t = s.result
        out = {"builder-untouched": AND(*[dsb_unchanged(x, y) for x, y in zip(secs, SECS(s.old))]),
               "service-iff-marker-seen": IFF(ISINST(t, "ServiceType"), len(secs) == 2),
               "port-id-of-the-definition": SAME(t._fixed_port_id, port),
               "name-of-the-definition": EQ(t._name, nm)}
        if len(secs) == 1:
            for k, v in mirrors(t, secs[0], nm, ver, b._is_deprecated, port, path, False).items():
                out["message:" + k] = v
        else:
            svc = speclib.AS(t, SERVICE)
            none = OptV(True, 0) if smt() else None
            for k, v in mirrors(svc._request_type, secs[0], _cat(nm, ".Request"), ver, b._is_deprecated, none, path, True).items():
                out["request:" + k] = v
            for k, v in mirrors(svc._response_type, secs[1], _cat(nm, ".Response"), ver, b._is_deprecated, none, path, True).items():
                out["response:" + k] = v
            out["service:deprecated-iff-marked"] = EQ(t._deprecated, b._is_deprecated)
        return out


def _cat(a, b):
    if smt():
        return z3.Concat(Str.unwrap(a), Str.unwrap(b))
    return a + b


# ------------------------------------------------------------------------------------------------ level 3: processor
NodeK = Rec("Node", text=Str)


def _frontend_path(rel):
    import os
    from pyvc import frontend

    return os.path.join(frontend.REPO_ROOT, "pydsdl", rel)


# The processor may remember the line of the attribute statement that is waiting for its doc comment (fix of finding F2,
# C17).  The specification adapts to the tree it is run on: the clauses about that field exist iff the field exists.
LINE_MEMO = "_attribute_line_number"
with open(_frontend_path("_parser.py"), "r", encoding="utf8") as _f:
    HAS_LINE_MEMO = ("self.%s" % LINE_MEMO) in _f.read()


@class_spec(PTP)
class _PTPSpec:
    fields = dict(
        _statement_stream_processor=MutObjOf(DTB),
        _current_line_number=Int,
        _comment=Str,
        _comment_is_header=Bool,
        _strict=Bool,
        **({LINE_MEMO: Int} if HAS_LINE_MEMO else {})
    )
    mutable = ["_current_line_number", "_comment", "_comment_is_header"] + ([LINE_MEMO] if HAS_LINE_MEMO else [])
    owns_state = True


def MEMO(p):
    """The remembered line of the last queued attribute statement (None on a tree without that field)."""
    return getattr(p, LINE_MEMO) if HAS_LINE_MEMO else None


inline_ok(PTP + ".current_line_number", why="trivial accessor (asserts the line number is positive)")

_PTP_INSTANCES = lambda: [{"self._statement_stream_processor": MutObjOf(DTB)},
                          {"self._statement_stream_processor": MutObjOf(DTB, _structs=ListK(MutObjOf(DSB), MutObjOf(DSB)))}]


def B(p):
    return p._statement_stream_processor


def WF_P(p):
    """Representation invariant of the processor + builder pair."""
    return AND(p._current_line_number >= 1,
               WF(B(p)),
               # a header comment is only collected while no attribute statement is pending
               IMPLIES(p._comment_is_header, NO_PENDING(B(p))))


def strip_marker(text):
    """The doc text of a comment: the text after `#`, without one separating blank."""
    if smt():
        t = Str.unwrap(text)
        return z3.If(z3.PrefixOf(z3.StringVal("# "), t), z3.SubString(t, 2, z3.Length(t)), z3.SubString(t, 1, z3.Length(t)))
    return text[2:] if text.startswith("# ") else text[1:]


def join_doc(acc, more):
    """Comment lines of one block are joined by line feeds."""
    if smt():
        a, m = Str.unwrap(acc), Str.unwrap(more)
        return z3.If(a == z3.StringVal(""), m, z3.Concat(a, z3.StringVal("\n"), m))
    return more if acc == "" else acc + "\n" + more


def builder_unchanged(new_b, old_b):
    ns_, os_ = SECS(new_b), SECS(old_b)
    return AND(len(ns_) == len(os_), _pending_same(new_b, old_b), EQ(new_b._is_deprecated, old_b._is_deprecated),
               len(_calls(new_b)) == len(_calls(old_b)),
               *[dsb_unchanged(a, b) for a, b in zip(ns_, os_)])


def flush_clauses(new_p, old_p, prefix="flush:", response_marker=False, memo_kept=True):
    """What flushing the collected comment does (documented rule): a header block becomes the doc of the current
    section; otherwise the block is the doc of the pending attribute statement, which is committed with it."""
    nb, ob = B(new_p), B(old_p)
    hdr = old_p._comment_is_header
    out = {
        "comment-consumed": EQ(new_p._comment, ""),
        "line-kept": new_p._current_line_number == old_p._current_line_number,
        "attribute-line-memo-kept": (MEMO(new_p) == MEMO(old_p)) if (HAS_LINE_MEMO and memo_kept) else True,
        "header-doc": IMPLIES(hdr, lambda: AND(EQ(SECS(nb)[len(SECS(ob)) - 1]._doc, old_p._comment))),
        "attribute-doc-kept-section-doc": IMPLIES(NOT(hdr), lambda: EQ(SECS(nb)[len(SECS(ob)) - 1]._doc, CUR(ob)._doc)),
    }
    if not response_marker:
        out["header-over"] = NOT(new_p._comment_is_header)
        for k, v in commit_between(nb, ob, old_p._comment, doc_kept=False).items():
            out[k] = v
    return {prefix + k: v for k, v in out.items()}


def havoc_processor(s):
    b = B(s.self)
    out = [(s.self, "_comment"), (s.self, "_comment_is_header"), (b, "_element_callback")]
    for sec in SECS(b):
        out += [(sec, "_fields"), (sec, "_constants"), (sec, "_doc")]
    return out


def p_commit_raises():
    return {
        "BitLengthAnalysisError": lambda s: AND(OR(PENDING(B(s.old)).tag == T_FIELD, PENDING(B(s.old)).tag == T_PAD),
                                                CUR(B(s.old))._is_union, CUR(B(s.old))._bit_length_computed_at_least_once),
        "InvalidNameError": None, "InvalidTypeError": None, "InvalidConstantValueError": None,
    }


@contract(PTP + ".__init__", props=P17)
class _PTPInit:
    params = dict(statement_stream_processor=MutObjOf(DTB), strict=Bool)

    def post(s):
        return {"line-one": s.self._current_line_number == 1, "no-comment": EQ(s.self._comment, ""),
                "header-first": s.self._comment_is_header,
                "processor": SAME(s.self._statement_stream_processor.ref if smt() else s.self._statement_stream_processor,
                                  s.statement_stream_processor.ref if smt() else s.statement_stream_processor)}


@contract(PTP + "._flush_comment", props=P)
class _FlushComment:
    instances = _PTP_INSTANCES
    havoc = havoc_processor
    raises = p_commit_raises()

    def pre(s):
        return {"wf": WF_P(s.self)}

    def post(s):
        out = {"nothing-pending-afterwards": NO_PENDING(B(s.self)), "wf": WF_P(s.self),
               "calls-kept": len(_calls(B(s.self))) == len(_calls(B(s.old)))}
        out.update(flush_clauses(s.self, s.old, prefix=""))
        return out


def processor_unchanged(new_p, old_p, *except_):
    cs = []
    for f in ("_current_line_number", "_comment", "_comment_is_header"):
        if f not in except_:
            cs.append(SAME(getattr(new_p, f), getattr(old_p, f)))
    if "builder" not in except_:
        cs.append(builder_unchanged(B(new_p), B(old_p)))
    if HAS_LINE_MEMO and LINE_MEMO not in except_:  # last, so that the numbering of the other conjuncts does not depend on it
        cs.append(SAME(MEMO(new_p), MEMO(old_p)))
    return AND(*cs)


@contract(PTP + ".visit_end_of_line", props=P17)
class _VisitEOL:
    params = dict(_n=NodeK, _c=Const(()))
    instances = _PTP_INSTANCES
    havoc = lambda s: [(s.self, "_current_line_number")]

    def pre(s):
        return {"wf": WF_P(s.self)}

    def post(s):
        return {"next-line": s.self._current_line_number == s.old._current_line_number + 1,
                "nothing-else": processor_unchanged(s.self, s.old, "_current_line_number"), "wf": WF_P(s.self)}


@contract(PTP + ".visit_comment", props=P)
class _VisitComment:
    params = dict(node=NodeK, children=Const(()))
    instances = _PTP_INSTANCES
    havoc = lambda s: [(s.self, "_comment")]

    def pre(s):
        return {"wf": WF_P(s.self)}

    def post(s):
        return {"block-extended": EQ(s.self._comment, join_doc(s.old._comment, strip_marker(s.node.text))),
                "nothing-else": processor_unchanged(s.self, s.old, "_comment"), "wf": WF_P(s.self)}


def _line_raises():
    d = p_commit_raises()
    inner = d["BitLengthAnalysisError"]
    d["BitLengthAnalysisError"] = lambda s: AND(EQ(s.node.text, ""), inner(s))
    return d


@contract(PTP + ".visit_line", props=P)
class _VisitLine:
    params = dict(node=NodeK, children=Const(()))
    instances = _PTP_INSTANCES
    havoc = havoc_processor
    raises = _line_raises()

    def pre(s):
        return {"wf": WF_P(s.self)}

    def post(s):
        empty = EQ(s.node.text, "")
        out = {"non-empty-line-changes-nothing": IMPLIES(NOT(empty), lambda: processor_unchanged(s.self, s.old)),
               "empty-line-nothing-pending": IMPLIES(empty, lambda: NO_PENDING(B(s.self))), "wf": WF_P(s.self),
               "calls-kept": len(_calls(B(s.self))) == len(_calls(B(s.old)))}
        for k, v in flush_clauses(s.self, s.old, prefix="empty-line-").items():
            out[k] = IMPLIES(empty, v)
        return out


@contract(PTP + ".visit_identifier", props=P)
class _VisitIdentifier:
    params = dict(node=NodeK, _c=Const(()))
    returns = Str
    instances = _PTP_INSTANCES
    havoc = havoc_processor
    raises = p_commit_raises()

    def pre(s):
        return {"wf": WF_P(s.self), "identifier-not-empty": NOT(EQ(s.node.text, ""))}

    def post(s):
        out = {"the-text": EQ(s.result, s.node.text), "nothing-pending-afterwards": NO_PENDING(B(s.self)), "wf": WF_P(s.self),
               "calls-kept": len(_calls(B(s.self))) == len(_calls(B(s.old)))}
        out.update(flush_clauses(s.self, s.old))
        return out


def _stmt_raises():
    d = {"InvalidDirectiveError": lambda s: _is_delimited(CUR(B(s.old))._serialization_mode)}
    d.update(p_commit_raises())
    return d


def _stmt_post(s, tag, T, name=None, value=None):
    out = {"exactly-this-statement-pending": pending_is(B(s.self), tag, T, name, value), "wf": WF_P(s.self),
           "calls-kept": len(_calls(B(s.self))) == len(_calls(B(s.old)))}
    out.update(flush_clauses(s.self, s.old, memo_kept=False))
    if HAS_LINE_MEMO:
        out["line-of-this-statement-remembered"] = MEMO(s.self) == s.old._current_line_number
    return out


def havoc_processor_stmt(s):
    return havoc_processor(s) + ([(s.self, LINE_MEMO)] if HAS_LINE_MEMO else [])


@contract(PTP + ".visit_statement_field", props=P)
class _VisitField:
    params = dict(_n=NodeK, children=TupleK(ObjOf(SERIALIZABLE), Const(None), Str))
    instances = _PTP_INSTANCES
    havoc = havoc_processor_stmt
    raises = _stmt_raises()

    def pre(s):
        return {"wf": WF_P(s.self), "name-not-empty": NOT(EQ(s.children[2], ""))}

    def post(s):
        return _stmt_post(s, T_FIELD, s.children[0], s.children[2])


@contract(PTP + ".visit_statement_constant", props=P)
class _VisitConstant:
    params = dict(_n=NodeK, children=TupleK(ObjOf(SERIALIZABLE), Const(None), Str, Const(None), Const(None), Const(None),
                                            ObjOf(ANY)))
    instances = _PTP_INSTANCES
    havoc = havoc_processor_stmt
    raises = _stmt_raises()

    def pre(s):
        return {"wf": WF_P(s.self), "name-not-empty": NOT(EQ(s.children[2], ""))}

    def post(s):
        return _stmt_post(s, T_CONST, s.children[0], s.children[2], s.children[6])


@contract(PTP + ".visit_statement_padding_field", props=P)
class _VisitPadding:
    params = dict(_n=NodeK, children=TupleK(ObjOf(VOID_T), Const(None)))
    instances = _PTP_INSTANCES
    havoc = havoc_processor_stmt
    raises = _stmt_raises()

    def pre(s):
        return {"wf": WF_P(s.self)}

    def post(s):
        return _stmt_post(s, T_PAD, s.children[0])


def havoc_processor_marker(s):
    b = B(s.self)
    return [(s.self, "_comment"), (s.self, "_comment_is_header"), (b, "_element_callback"),
            (b, "_structs", ListK(MutObjOf(DSB), MutObjOf(DSB)))]


def _marker_raises():
    d = p_commit_raises()  # the specific classes first: they are subclasses of InvalidDefinitionError
    d["InvalidDefinitionError"] = lambda s: len(SECS(B(s.old))) > 1
    return d


@contract(PTP + ".visit_statement_service_response_marker", props=P)
class _VisitMarker:
    params = dict(_n=NodeK, _c=Const(()))
    instances = _PTP_INSTANCES
    havoc = havoc_processor_marker
    raises = _marker_raises()

    def pre(s):
        return {"wf": WF_P(s.self)}

    def post(s):
        nb, ob = B(s.self), B(s.old)
        # the request section is what the flush made of it: seen as a one-section builder state
        req_new = _View(_structs=(PyList([SECS(nb)[0]]) if smt() else [SECS(nb)[0]]), _element_callback=None,
                        _is_deprecated=nb._is_deprecated)
        out = {"two-sections": len(SECS(nb)) == 2,
               "response-section-empty": dsb_is_empty(SECS(nb)[-1]),
               "response-header-may-follow": s.self._comment_is_header,
               "comment-consumed": EQ(s.self._comment, ""),
               "line-kept": s.self._current_line_number == s.old._current_line_number,
               "attribute-line-memo-kept": (MEMO(s.self) == MEMO(s.old)) if HAS_LINE_MEMO else True,
               "nothing-pending-afterwards": NO_PENDING(nb), "wf": WF_P(s.self),
               "calls-kept": len(_calls(nb)) == len(_calls(ob)),
               "request-header-doc": IMPLIES(s.old._comment_is_header, lambda: EQ(SECS(nb)[0]._doc, s.old._comment)),
               "request-doc-kept": IMPLIES(NOT(s.old._comment_is_header), lambda: EQ(SECS(nb)[0]._doc, CUR(ob)._doc))}
        for k, v in commit_between(req_new, ob, s.old._comment, doc_kept=False).items():
            out["request:" + k] = v
        return out


def havoc_processor_directive(s):
    b = B(s.self)
    return havoc_processor(s) + [(b, "_is_deprecated"), (CUR(b), "_is_union"), (CUR(b), "_serialization_mode"),
                                 (b, "_print_output_handler", _RecorderGrown(b._print_output_handler, _dir_name(s)))]


def _dir_name(s):
    return s.children[1]


class _DirView:
    """on_directive's view of a directive statement visited by the processor."""

    def __init__(self, s, with_expr):
        self.directive_name = s.children[1]
        self.associated_expression_value = s.children[3] if with_expr else None
        self.old = B(s.old)
        self.self = B(s.self)
        self.line_number = s.old._current_line_number


def _directive_visit_raises(with_expr):
    d = {
        "AssertionCheckFailureError": lambda s: _assert_fails(_DirView(s, with_expr)),
        "InvalidDirectiveError": lambda s: _directive_rejected_after_flush(s, with_expr),
        "InvalidOperandError": None,
    }
    d.update(p_commit_raises())
    return d


def _directive_rejected_after_flush(s, with_expr):
    """The directive rules are applied to the state AFTER the flush: a pending attribute statement counts as an
    attribute of the section (that is what 'before the first attribute definition' means in the source text)."""
    v = _DirView(s, with_expr)
    n = v.directive_name
    ob = B(s.old)
    cur = CUR(ob)
    none = IS_NONE(v.associated_expression_value)
    has_attrs = OR(_has_attributes(cur), NOT(NO_PENDING(ob)))
    if not _known(n):
        return True
    if n == "print":
        return False
    if n == "assert":
        return OR(none, NOT(_val_isinst(v, BOOLEAN_XQ)))
    if n == "extent":
        return OR(NOT(IS_NONE(cur._serialization_mode)), none, NOT(_val_isinst(v, RATIONAL_XQ)))
    if n == "sealed":
        return OR(NOT(IS_NONE(cur._serialization_mode)), NOT(none))
    if n == "union":
        return OR(NOT(none), cur._is_union, has_attrs)
    if n == "deprecated":
        return OR(NOT(none), ob._is_deprecated, len(SECS(ob)) > 1, has_attrs)
    raise AssertionError(n)


def _directive_visit_post(s, with_expr):
    v = _DirView(s, with_expr)
    n = v.directive_name
    nb, ob = B(s.self), B(s.old)
    cn, co = CUR(nb), CUR(ob)
    new_calls, old_calls = _calls(nb), _calls(ob)
    out = {"nothing-pending-afterwards": NO_PENDING(nb), "wf": WF_P(s.self),
           "union-flag": IFF(cn._is_union, OR(co._is_union, _is(n, "union"))),
           "deprecated-flag": IFF(nb._is_deprecated, OR(ob._is_deprecated, _is(n, "deprecated"))),
           "mode-kept-unless-set": IMP(not (_is(n, "sealed") or _is(n, "extent")),
                                       lambda: SAME(cn._serialization_mode, co._serialization_mode)),
           "sealed": IMP(_is(n, "sealed"), lambda: ISINST(VAL(cn._serialization_mode), "SealedSerializationMode")),
           "delimited": IMP(_is(n, "extent"), lambda: ISINST(VAL(cn._serialization_mode), "DelimitedSerializationMode")),
           # C17: the directive handler receives the line the processor is on
           "print-delivered-exactly-once": len(new_calls) == len(old_calls) + (1 if _is(n, "print") else 0),
           "print-carries-current-line-and-text": IMP(_is(n, "print"), lambda: AND(
               EQ(new_calls[-1][0], s.old._current_line_number),
               EQ(new_calls[-1][1], ITE(IS_NONE(v.associated_expression_value), "", lambda_free_str(v)))))}
    fl = flush_clauses(s.self, s.old)
    # the flags of the current section are the directive's business; the flush frame is restated without them
    for k in list(fl):
        if k.endswith("section-frame") or k.endswith("deprecated-unchanged"):
            del fl[k]
    out.update(fl)
    out["lists-and-flags-frame"] = dsb_unchanged(cn, co, "_fields", "_constants", "_doc", "_is_union", "_serialization_mode")
    return out


def _dir_visit_instances(with_expr):
    def gen():
        out = []
        for inst in _PTP_INSTANCES():
            for n in DIRECTIVE_NAMES + [_OtherName()]:
                d = dict(inst)
                kinds = [Const(None), n if isinstance(n, _OtherName) else Const(n)]
                if with_expr:
                    kinds += [Const(None), ObjOf(ANY)]
                d["children"] = TupleK(*kinds)
                d["__label__"] = n if isinstance(n, str) else "other"
                out.append(d)
        return out
    return gen


@contract(PTP + ".visit_statement_directive_with_expression", props=P17)
class _VisitDirectiveWith:
    params = dict(_n=NodeK)
    instances = _dir_visit_instances(True)
    havoc = havoc_processor_directive
    raises = _directive_visit_raises(True)

    def pre(s):
        return {"wf": WF_P(s.self), "name-not-empty": NOT(EQ(_dir_name(s), ""))}

    def post(s):
        return _directive_visit_post(s, True)


@contract(PTP + ".visit_statement_directive_without_expression", props=P17)
class _VisitDirectiveWithout:
    params = dict(_n=NodeK)
    instances = _dir_visit_instances(False)
    havoc = havoc_processor_directive
    raises = _directive_visit_raises(False)

    def pre(s):
        return {"wf": WF_P(s.self), "name-not-empty": NOT(EQ(_dir_name(s), ""))}

    def post(s):
        return _directive_visit_post(s, False)


# ---- errors of the attribute constructors: one-sided (`raise X => a statement of that kind was pending`); when exactly
#      they are raised is C05's (names) and C12's (constant values) business
def _implies_for(view):
    return {
        "InvalidNameError": lambda s: NOT(PENDING(view(s)).tag == T_NONE),
        "InvalidTypeError": lambda s: PENDING(view(s)).tag == T_CONST,
        "InvalidConstantValueError": lambda s: PENDING(view(s)).tag == T_CONST,
    }


for _q, _view in ([(DTB + "." + n, (lambda s: s.old)) for n in
                   ("on_attribute_comment", "on_field", "on_constant", "on_padding_field")] +
                  [(PTP + "." + n, (lambda s: B(s.old))) for n in
                   ("_flush_comment", "visit_line", "visit_identifier", "visit_statement_field", "visit_statement_constant",
                    "visit_statement_padding_field", "visit_statement_service_response_marker",
                    "visit_statement_directive_with_expression", "visit_statement_directive_without_expression")]):
    _c = _REG.contracts[_q]
    for _x in ("InvalidNameError", "InvalidTypeError", "InvalidConstantValueError"):
        assert _c.raises.pop(_x, "missing") is None, (_q, _x)
    _c.raises_implies = _implies_for(_view)
_vl = _REG.contracts[PTP + ".visit_line"]  # a non-empty line flushes nothing, hence raises nothing
_vl.raises_implies = {x: (lambda s, f=f: AND(EQ(s.node.text, ""), f(s))) for x, f in _vl.raises_implies.items()}


# ------------------------------------------------------------------------------------------------ level 4: the traversal
import os as _os
from pyvc import frontend as _frontend

DRIVER_PATH = _os.path.join(_os.path.dirname(_os.path.abspath(__file__)), "drivers", "c03_driver.py")
_frontend.register_extra_source("pydsdl._spec_c03_driver", DRIVER_PATH)
DRV = "pydsdl._spec_c03_driver."

inline_ok(PTP + ".generic_visit", PTP + ".visit_definition",
          why="dispatch target on the root node: inlined, whatever it does is checked against the end-of-input requirement")

GHOST = dict(g_eol=Int, g_open=Bool, g_tag=Int, g_type=ObjOf(SERIALIZABLE), g_name=Str, g_value=ObjOf(ANY), g_doc=Str,
             g_line=Int, g_hdr_open=Bool, g_hdr=Str, g_count=Int)


def ghost_of(s):
    """Ghost state of the specification (per source line, the documented rule):
    eol       number of end-of-line nodes passed,
    open      the last statement line was an attribute statement and neither a blank line nor another statement followed:
              its doc window is still open; tag/T/name/value describe that statement, doc is its doc text so far
              (same-line comment plus the comment-only lines that followed),
    line      the 1-based line number of that statement (C17),
    hdr_open  no statement and no blank line yet in this section: the comment block so far (hdr) is the section's header,
    count     number of attribute statements seen so far."""
    return _View(eol=s.g_eol, open=s.g_open, tag=s.g_tag, T=s.g_type, name=s.g_name, value=s.g_value, doc=s.g_doc,
                 line=s.g_line, hdr_open=s.g_hdr_open, hdr=s.g_hdr, count=s.g_count)


def _upd(g, **kw):
    d = dict(g.__dict__)
    d.update(kw)
    return _View(**d)


def total_committed(b):
    t = 0
    for sec in SECS(b):
        t = t + LEN(sec._fields) + LEN(sec._constants)
    return t


def inv_clauses(p, g):
    """INV: the processor + builder state mirrors the ghost state (nothing lost, nothing duplicated, the collected
    comment is the doc text the rule assigns, the line counter is 1 + #end_of_line)."""
    b = B(p)
    pend = PENDING(b)
    return {
        "wf": WF_P(p),
        "line-is-one-plus-eol": AND(p._current_line_number == 1 + g.eol, g.eol >= 0),
        "pending-iff-window-open": IFF(NOT(pend.tag == T_NONE), g.open),
        "pending-is-the-last-attribute-statement": IMPLIES(g.open, lambda: AND(
            g.tag >= 1, g.tag <= 3, pend.tag == g.tag, SAME(pend.T, g.T),
            IMPLIES(NOT(g.tag == T_PAD), lambda: EQ(pend.name, g.name)),
            IMPLIES(g.tag == T_CONST, lambda: SAME(pend.value, g.value)))),
        "open-statement-is-on-an-earlier-or-this-line": IMPLIES(g.open, lambda: AND(1 <= g.line, g.line <= 1 + g.eol)),
        "line-of-the-open-statement-remembered": IMPLIES(g.open, lambda: MEMO(p) == g.line) if HAS_LINE_MEMO else True,
        "collected-comment-is-its-doc": IMPLIES(g.open, lambda: AND(NOT(p._comment_is_header), EQ(p._comment, g.doc))),
        "header-iff-header-window": IFF(p._comment_is_header, g.hdr_open),
        "collected-comment-is-the-header": IMPLIES(g.hdr_open, lambda: EQ(p._comment, g.hdr)),
        "every-statement-committed-or-pending-once": total_committed(b) + ITE(g.open, 1, 0) == g.count,
    }


def INV(p, g):
    return AND(*inv_clauses(p, g).values())


def _ghost_builder(old_b, g, secs=None):
    """The pre-state builder with its pending statement described by the ghost state."""
    tag = ITE(g.open, g.tag, 0)
    return _View(_structs=(old_b._structs if secs is None else secs), _is_deprecated=old_b._is_deprecated,
                 _ghost_pending=_View(tag=tag, T=g.T, name=g.name, value=g.value))


def closing_clauses(s, g, flags_kept=True, marker=False):
    """The doc window of the open statement (if any) closes on this line: the statement is committed exactly once, as
    declared, with the doc text the rule assigned to it; a header window closes with the header text as section doc."""
    nb, ob = B(s.pr), B(s.old_pr)
    k = len(SECS(ob)) - 1
    new_view = nb
    if marker:
        new_view = _View(_structs=(PyList([SECS(nb)[0]]) if smt() else [SECS(nb)[0]]), _element_callback=None,
                         _is_deprecated=nb._is_deprecated)
    out = {"closed:" + kk: v for kk, v in
           commit_between(new_view, _ghost_builder(ob, g), g.doc, doc_kept=False, flags_kept=flags_kept).items()}
    out["closed:header-doc-attached"] = IMPLIES(g.hdr_open, lambda: EQ(SECS(nb)[k]._doc, g.hdr))
    out["closed:section-doc-kept"] = IMPLIES(NOT(g.hdr_open), lambda: EQ(SECS(nb)[k]._doc, SECS(ob)[k]._doc))
    return out


_DRV_INSTANCES = lambda: [
    {"pr": MutObjOf(PTP)},
    {"pr": MutObjOf(PTP, _statement_stream_processor=MutObjOf(DTB, _structs=ListK(MutObjOf(DSB), MutObjOf(DSB))))}]

_ANY_DEFINITION_ERROR = {"InvalidDefinitionError": None}


def _doc_of_line_comment(s):
    return ITE(s.has_comment, strip_marker(s.comment_node.text), "")


def _drv_params(**kw):
    d = dict(kw)
    d.update(GHOST)
    return d


inline_ok(PTP + ".__init__", why="constructor of the processor: inlined where the traversal starts (and verified on its own)")


@contract(DRV + "begin", props=P17)
class _DrvBegin:
    """Base case: on a fresh builder (postcondition of DataTypeBuilder.__init__) the new processor satisfies INV with the
    initial ghost state (no line passed, no statement seen, header window open and empty)."""
    params = dict(statement_stream_processor=MutObjOf(DTB), strict=Bool)
    returns = MutObjOf(PTP)

    def pre(s):
        b = s.statement_stream_processor
        return {"fresh-builder": AND(len(SECS(b)) == 1, dsb_is_empty(SECS(b)[0]), NO_PENDING(b), WF(b))}

    def post(s):
        g0 = _View(eol=0, open=False, tag=1, T=None, name="", value=None, doc="", line=1, hdr_open=True, hdr="", count=0)
        return inv_clauses(s.result, g0)


@contract(DRV + "line_blank", props=P)
class _DrvBlank:
    params = _drv_params(line_node=NodeK)
    instances = _DRV_INSTANCES
    raises = _ANY_DEFINITION_ERROR

    def pre(s):
        return {"inv": INV(s.pr, ghost_of(s)), "the-line-is-empty": EQ(s.line_node.text, "")}

    def post(s):
        g = ghost_of(s)
        out = inv_clauses(s.pr, _upd(g, open=False, hdr_open=False))
        out.update(closing_clauses(s, g))
        return out


@contract(DRV + "line_comment_only", props=P)
class _DrvCommentOnly:
    params = _drv_params(comment_node=NodeK, line_node=NodeK)
    instances = _DRV_INSTANCES
    raises = _ANY_DEFINITION_ERROR

    def pre(s):
        return {"inv": INV(s.pr, ghost_of(s)), "the-line-is-not-empty": NOT(EQ(s.line_node.text, ""))}

    def post(s):
        g = ghost_of(s)
        t = strip_marker(s.comment_node.text)
        g2 = _upd(g, doc=ITE(g.open, join_doc(g.doc, t), g.doc), hdr=ITE(g.hdr_open, join_doc(g.hdr, t), g.hdr))
        out = inv_clauses(s.pr, g2)
        out["nothing-committed"] = builder_unchanged(B(s.pr), B(s.old_pr))
        return out


def _attr_line_post(s, tag, T, name, value):
    g = ghost_of(s)
    g2 = _upd(g, open=True, tag=tag, T=T, name=name, value=value, doc=_doc_of_line_comment(s), hdr_open=False,
              count=g.count + 1, line=1 + g.eol)
    out = inv_clauses(s.pr, g2)
    out.update(closing_clauses(s, g))
    return out


def _attr_line_pre(s, *name_nodes):
    out = {"inv": INV(s.pr, ghost_of(s)), "the-line-is-not-empty": NOT(EQ(s.line_node.text, ""))}
    for i, n in enumerate(name_nodes):
        out["identifier-%d-not-empty" % i] = NOT(EQ(n.text, ""))
    return out


@contract(DRV + "line_field", props=P)
class _DrvField:
    params = _drv_params(type_has_identifier=Bool, type_identifier_node=NodeK, field_type=ObjOf(SERIALIZABLE),
                         name_node=NodeK, stmt_node=NodeK, has_comment=Bool, comment_node=NodeK, line_node=NodeK)
    instances = _DRV_INSTANCES
    raises = _ANY_DEFINITION_ERROR

    def pre(s):
        return _attr_line_pre(s, s.name_node, s.type_identifier_node)

    def post(s):
        return _attr_line_post(s, T_FIELD, s.field_type, s.name_node.text, None)


@contract(DRV + "line_constant", props=P)
class _DrvConstant:
    params = _drv_params(type_has_identifier=Bool, type_identifier_node=NodeK, constant_type=ObjOf(SERIALIZABLE),
                         name_node=NodeK, expr_has_identifier=Bool, expr_identifier_node=NodeK, value=ObjOf(ANY),
                         stmt_node=NodeK, has_comment=Bool, comment_node=NodeK, line_node=NodeK)
    instances = _DRV_INSTANCES
    raises = _ANY_DEFINITION_ERROR

    def pre(s):
        return _attr_line_pre(s, s.name_node, s.type_identifier_node, s.expr_identifier_node)

    def post(s):
        return _attr_line_post(s, T_CONST, s.constant_type, s.name_node.text, s.value)


@contract(DRV + "line_padding", props=P)
class _DrvPadding:
    params = _drv_params(void_type=ObjOf(VOID_T), stmt_node=NodeK, has_comment=Bool, comment_node=NodeK, line_node=NodeK)
    instances = _DRV_INSTANCES
    raises = _ANY_DEFINITION_ERROR

    def pre(s):
        return _attr_line_pre(s)

    def post(s):
        return _attr_line_post(s, T_PAD, s.void_type, "", None)


def _drv_dir_instances():
    out = []
    for inst in _DRV_INSTANCES():
        for n in DIRECTIVE_NAMES + [_OtherName()]:
            d = dict(inst)
            d["name"] = n
            out.append(d)
    return out


def _directive_line_post(s):
    g = ghost_of(s)
    out = inv_clauses(s.pr, _upd(g, open=False, hdr_open=False))
    out.update(closing_clauses(s, g, flags_kept=False))
    return out


@contract(DRV + "line_directive_with_expression", props=P)
class _DrvDirectiveWith:
    params = _drv_params(name=Str, name_node=NodeK, expr_has_identifier=Bool, expr_identifier_node=NodeK, value=ObjOf(ANY),
                         stmt_node=NodeK, has_comment=Bool, comment_node=NodeK, line_node=NodeK)
    instances = _drv_dir_instances
    raises = _ANY_DEFINITION_ERROR

    def pre(s):
        out = _attr_line_pre(s, s.name_node, s.expr_identifier_node)
        out["name-is-the-identifier"] = EQ(s.name_node.text, s.name)
        return out

    def post(s):
        return _directive_line_post(s)


@contract(DRV + "line_directive_without_expression", props=P)
class _DrvDirectiveWithout:
    params = _drv_params(name=Str, name_node=NodeK, stmt_node=NodeK, has_comment=Bool, comment_node=NodeK, line_node=NodeK)
    instances = _drv_dir_instances
    raises = _ANY_DEFINITION_ERROR

    def pre(s):
        out = _attr_line_pre(s, s.name_node)
        out["name-is-the-identifier"] = EQ(s.name_node.text, s.name)
        return out

    def post(s):
        return _directive_line_post(s)


@contract(DRV + "line_service_response_marker", props=P)
class _DrvMarker:
    params = _drv_params(stmt_node=NodeK, has_comment=Bool, comment_node=NodeK, line_node=NodeK)
    instances = _DRV_INSTANCES
    raises = _ANY_DEFINITION_ERROR

    def pre(s):
        return _attr_line_pre(s)

    def post(s):
        g = ghost_of(s)
        # a new section begins: its header window is open (a comment on the marker line is its first header line)
        out = inv_clauses(s.pr, _upd(g, open=False, hdr_open=True, hdr=_doc_of_line_comment(s)))
        out.update(closing_clauses(s, g, marker=True))
        out["response-section-empty"] = dsb_is_empty(SECS(B(s.pr))[-1])
        return out


@contract(DRV + "end_of_line", props=P17)
class _DrvEOL:
    params = _drv_params(node=NodeK)
    instances = _DRV_INSTANCES

    def pre(s):
        return {"inv": INV(s.pr, ghost_of(s))}

    def post(s):
        g = ghost_of(s)
        out = inv_clauses(s.pr, _upd(g, eol=g.eol + 1))
        out["nothing-committed"] = builder_unchanged(B(s.pr), B(s.old_pr))
        return out


@contract(DRV + "end_of_input", props=P)
class _DrvEndOfInput:
    """REQUIRED by the property ("each field, padding and constant statement appears exactly once ... every way the text
    can end"): when the traversal is over, no attribute statement is left pending and the open doc window is closed."""
    params = _drv_params(definition_node=NodeK)
    instances = _DRV_INSTANCES
    raises = _ANY_DEFINITION_ERROR

    def pre(s):
        return {"inv": INV(s.pr, ghost_of(s))}

    def post(s):
        g = ghost_of(s)
        out = {"no-pending-attribute": NO_PENDING(B(s.pr)),
               "every-statement-committed-once": total_committed(B(s.pr)) == g.count}
        out.update(closing_clauses(s, g))
        del out["closed:header-doc-attached"]  # a definition that ends inside its header block has no attributes
        del out["closed:section-doc-kept"]
        return out


# ------------------------------------------------------------------------------------------------ bounded native checks
# Whole texts on the real reader (NOT counted as obligations; reported under coverage.extra_checks): the oracle is the
# documented rule applied to the line descriptors the text was generated from.  Also replays F1/F2/F3 concretely and
# compares the call order of the assumed traversal (driver) with what the vendored parsimonious really does.
_LINE_KINDS = [
    ("blank", "", None), ("comment", "# c%d", None), ("field", "uint8 f%d", None), ("field+c", "uint8 f%d # fc%d", None),
    ("const", "uint8 K%d = %d", None), ("const+c", "uint8 K%d = %d  # kc%d", None), ("pad", "void8", None),
    ("pad+c", "void8 #pc%d", None), ("directive", "@assert true", None),
]


def _oracle(lines):
    """Expected (fields, constants, header doc) by the documented rule; lines = [(kind, text)]."""
    fields, consts = [], []
    header, hdr_open, open_ = [], True, None
    for kind, text in lines:
        comment = None
        if "#" in text:
            c = text[text.index("#"):]
            comment = c[2:] if c.startswith("# ") else c[1:]
        base = kind.split("+")[0]
        if base == "blank":
            open_, hdr_open = None, False
        elif base == "comment":
            if open_ is not None:
                open_[1].append(comment)
            elif hdr_open:
                header.append(comment)
        elif base in ("field", "pad", "const"):
            stmt = text.split("#")[0].strip()
            norm = {"field": "saturated " + stmt, "pad": stmt, "const": "saturated " + " ".join(stmt.split())}[base]
            open_ = (norm, [comment] if comment is not None else [])
            (consts if base == "const" else fields).append(open_)
            hdr_open = False
        else:
            open_, hdr_open = None, False
    fmt = lambda xs: [(n, "\n".join(d)) for n, d in xs]
    return fmt(fields), fmt(consts), "\n".join(header)


def _read_text(text, deps=(), name="ns/A.1.0.dsdl"):
    import pathlib
    import shutil
    import tempfile
    import pydsdl
    from pydsdl._dsdl_definition import DSDLDefinition

    d = pathlib.Path(tempfile.mkdtemp(prefix="c03-native-"))
    try:
        p = d / name
        p.parent.mkdir(parents=True, exist_ok=True)
        p.write_bytes(text.encode())
        lk = []
        for n, t in deps:
            q = d / n
            q.parent.mkdir(parents=True, exist_ok=True)
            q.write_bytes(t.encode())
            lk.append(DSDLDefinition(q, d / n.split("/")[0]))
        prints = []
        try:
            t = DSDLDefinition(p, d / name.split("/")[0]).read(lk, [], lambda ln, tx: prints.append((ln, tx)), True)
        except pydsdl.FrontendError as e:
            return {"error": type(e).__name__, "line": e.line, "path": str(e.path.relative_to(d)) if e.path else None,
                    "prints": prints}
        return {"fields": [(str(a), a.doc) for a in t.fields], "constants": [(str(a), a.doc) for a in t.constants],
                "doc": t.doc, "prints": prints}
    finally:
        shutil.rmtree(d, ignore_errors=True)


def _traversal_log(text):
    """Names of the state-touching visitors in the order the real parsimonious traversal calls them."""
    from pydsdl import _parser

    names = ["visit_line", "visit_end_of_line", "visit_comment", "visit_identifier", "visit_statement_field",
             "visit_statement_constant", "visit_statement_padding_field", "visit_statement_directive_with_expression",
             "visit_statement_directive_without_expression", "visit_statement_service_response_marker"]
    log = []

    class _Null(_parser.StatementStreamProcessor):
        def __getattribute__(self, n):
            if n.startswith("on_"):
                return lambda *a, **k: None
            return object.__getattribute__(self, n)

        def resolve_top_level_identifier(self, name):
            from pydsdl import _expression
            return _expression.Boolean(True)

    def mk(n):
        orig = getattr(_parser._ParseTreeProcessor, n)

        def f(self, node, children):
            log.append(n)
            return orig(self, node, children)
        return f

    cls = type("_Logged", (_parser._ParseTreeProcessor,), {n: mk(n) for n in names})
    cls(_Null(), strict=False).visit(_parser._get_grammar().parse(text))
    return log


def _driver_log(lines, final_eol):
    """The same order according to the assumed traversal (specs/drivers/c03_driver.py) run on a logging stand-in."""
    from types import SimpleNamespace as N
    from .drivers import c03_driver as D

    log = []

    class _Pr:
        def __getattr__(self, n):
            if n == "visit_definition":
                raise AttributeError(n)
            if n == "generic_visit":
                return lambda node, ch: None

            def f(node, children):
                log.append(n)
                return getattr(node, "text", None)
            return f

    pr, g = _Pr(), [None] * 11
    rows = list(lines) + ([("blank", "")] if final_eol else [])
    for i, (kind, text) in enumerate(rows):
        base, hc = kind.split("+")[0], "#" in text
        ln, cn = N(text=text), N(text=text[text.index("#"):] if hc else "")
        if base == "blank":
            D.line_blank(pr, ln, *g)
        elif base == "comment":
            D.line_comment_only(pr, cn, ln, *g)
        elif base == "field":
            D.line_field(pr, False, None, None, N(text="f"), None, hc, cn, ln, *g)
        elif base == "const":
            D.line_constant(pr, False, None, None, N(text="K"), False, None, None, None, hc, cn, ln, *g)
        elif base == "pad":
            D.line_padding(pr, None, None, hc, cn, ln, *g)
        elif base == "directive":
            if len(text.split("#")[0].split()) > 1:
                ident = text.split()[1] in ("x",)
                D.line_directive_with_expression(pr, "n", N(text="n"), ident, N(text="x"), None, None, hc, cn, ln, *g)
            else:
                D.line_directive_without_expression(pr, "n", N(text="n"), None, hc, cn, ln, *g)
        if i + 1 < len(rows):
            D.end_of_line(pr, None, *g)
    D.end_of_input(pr, None, *g)
    return log


def _gen_texts(max_lines):
    import itertools

    for n in range(0, max_lines + 1):
        for combo in itertools.product(range(len(_LINE_KINDS)), repeat=n):
            lines = []
            for i, k in enumerate(combo):
                kind, tpl, _ = _LINE_KINDS[k]
                cnt = tpl.count("%d")
                lines.append((kind, tpl % tuple([i] * cnt) if cnt else tpl))
            for prefix in ([], [("comment", "# hdr")]):
                yield prefix + [("directive", "@sealed")] + lines


def extra_whole_text(eng, tier, seed):
    max_lines = 3 if tier != "thorough" else 4
    checked = mism_f1 = trav = 0
    violations = []
    for lines in _gen_texts(max_lines):
        exp = _oracle(lines)
        for eol in ("\n", "\r\n"):
            for final in (True, False):
                if eol == "\r\n" and len(lines) > 3:
                    continue
                text = eol.join(t for _, t in lines) + (eol if final else "")
                got = _read_text(text)
                checked += 1
                ok = "error" not in got and (got["fields"], got["constants"], got["doc"]) == exp
                if not ok:
                    last_open = (not final) and lines[-1][0].split("+")[0] in ("field", "const", "pad", "comment")
                    name = "native/last-line-without-end-of-line" if last_open else "native/whole-text-mirror"
                    if last_open:
                        mism_f1 += 1
                    if not any(v["name"] == name for v in violations):
                        violations.append({"name": name, "detail": "model %r, expected by the documented rule %r" % (got, exp),
                                           "concrete": {"text": text}})
                if eol == "\n" and len(lines) <= 4:
                    trav += 1
                    a, b = _traversal_log(text), _driver_log(lines, final)
                    if a != b and not any(v["name"] == "native/assumed-traversal-order" for v in violations):
                        violations.append({"name": "native/assumed-traversal-order", "concrete": {"text": text},
                                           "detail": "parsimonious calls %r, the driver assumes %r" % (a, b)})
    return {"check": "whole texts on the real reader vs the documented rule (bounded, native)", "texts": checked,
            "bound": "all texts of '@sealed' (optionally after a header comment) + <= %d lines over %d line kinds x LF/CRLF x "
                     "with/without final end-of-line" % (max_lines, len(_LINE_KINDS)),
            "mismatches_last_line_without_eol": mism_f1, "traversal_orders_compared": trav, "violations": violations}


def extra_whole_text_locations(eng, tier, seed):
    """C17 natively: error line of an invalid constant placed on line k with what follows varied; @print line; @print
    in a dependency."""
    violations, checked = [], 0
    follow = ["", "\n", "\n# c1\n# c2\n\n@sealed\n", "\nuint8 b\n@sealed\n", " # c\n\n\n@sealed\n", "\r\n\r\n@sealed\r\n"]
    for before in ["", "\n", "# h\n\n", "uint8 a\n# doc of a\n", "\r\n\r\n"]:
        for f in follow:
            text = before + "uint8 X = 1000" + f
            want = before.count("\n") + 1
            got = _read_text(text)
            checked += 1
            if got.get("error") != "InvalidConstantValueError":
                continue  # accepted (F1, C03) or rejected for another reason: not a location question
            if got.get("line") != want and not violations:
                violations.append({"name": "native/error-line-is-statement-line", "concrete": {"text": text},
                                   "detail": "statement on line %d, reported line %r (%s)" % (want, got.get("line"), got["error"])})
    for before in ["", "\n\n", "# c\n", "uint8 a # c\n", "\r\n"]:
        text = before + "@print 1 + 1\n@sealed\n"
        got = _read_text(text)
        checked += 1
        if got.get("prints") != [(before.count("\n") + 1, "2")]:
            violations.append({"name": "native/print-line", "concrete": {"text": text}, "detail": repr(got)})
    # @print without an expression is delivered exactly once as well (empty text), whatever follows on the line
    for before in ["", "\n", "uint8 a\n"]:
        for tail in ["", " ", "  # c", "\t"]:
            text = before + "@print" + tail + "\n@sealed\n"
            got = _read_text(text)
            checked += 1
            if got.get("prints") != [(before.count("\n") + 1, "")]:
                violations.append({"name": "native/print-line", "concrete": {"text": text}, "detail": repr(got)})
    # the line of a syntax error counts line feeds only: characters that str.splitlines() treats as line boundaries (form
    # feed, vertical tab, the ASCII separators, NEL, LS, PS) are ordinary comment characters in DSDL
    for odd in ["\x0b", "\x0c", "\x1c", "\x1d", "\x1e", "\x85", "\u2028", "\u2029"]:
        for k in (1, 2):
            text = ("# c%s c\n" % odd) * k + "uint8 a\n%%%\n@sealed\n"
            got = _read_text(text)
            checked += 1
            if got.get("error") == "DSDLSyntaxError" and got.get("line") != k + 2:
                violations.append({"name": "native/syntax-error-line", "concrete": {"text": text},
                                   "detail": "error on line %d, reported line %r" % (k + 2, got.get("line"))})
    # an error in a dependency (any depth) carries the dependency's path and the line inside the dependency
    for depth in (1, 2):
        deps = [("ns/D%d.1.0.dsdl" % j, ("\n" * j) + ("ns.D%d.1.0 x\n@sealed\n" % (j + 1) if j < depth else "uint8 X = 1000\n@sealed\n"))
                for j in range(1, depth + 1)]
        text = "\n\n\n\nns.D1.1.0 d\n@sealed\n"
        got = _read_text(text, deps=deps)
        checked += 1
        want_path, want_line = "ns/D%d.1.0.dsdl" % depth, depth + 1
        if got.get("error") == "InvalidConstantValueError" and (got.get("path") != want_path or got.get("line") != want_line):
            violations.append({"name": "native/dependency-error-location", "concrete": {"text": text, "deps": deps},
                               "detail": "want %s:%d, got %r:%r" % (want_path, want_line, got.get("path"), got.get("line"))})
    # F3: @print in a dependency must be attributed to the dependency
    import pathlib
    import shutil
    import tempfile
    import pydsdl

    d = pathlib.Path(tempfile.mkdtemp(prefix="c03-native-"))
    try:
        (d / "ns").mkdir()
        (d / "ns" / "A.1.0.dsdl").write_text("ns.B.1.0 b\n@sealed\n")
        (d / "ns" / "B.1.0.dsdl").write_text("\n@print 7\n@sealed\n")
        out = []
        pydsdl.read_namespace(d / "ns", [], lambda path, line, text: out.append((pathlib.Path(path).name, line, text)))
        checked += 1
        wrong = [o for o in out if o[0] != "B.1.0.dsdl"]
        if wrong or not out:
            violations.append({"name": "native/print-in-dependency-carries-dependency-path",
                               "concrete": {"files": {"ns/A.1.0.dsdl": "ns.B.1.0 b\n@sealed\n", "ns/B.1.0.dsdl": "\n@print 7\n@sealed\n"}},
                               "detail": "handler calls: %r" % (out,)})
    finally:
        shutil.rmtree(d, ignore_errors=True)
    return {"check": "error / @print locations on whole texts (bounded, native)", "texts": checked, "violations": violations}


EXTRA_CHECKS = [extra_whole_text]

# ------------------------------------------------------------------------------------------------ native harness
from pyvc.native import NativeSuite

NATIVE = NativeSuite()
LEVEL = "proof"
NOT_COVERED = []
EXPLANATION = ""
ASSUMPTIONS = []


class _Rec:
    def __init__(self):
        self.calls = []

    def __call__(self, *a):
        self.calls.append(tuple(a))


def native_snapshot(b):
    return _View(_structs=[_View(_fields=list(x._fields), _constants=list(x._constants), _doc=x._doc, _is_union=x._is_union,
                                 _serialization_mode=x._serialization_mode, _orig=x,
                                 _bit_length_computed_at_least_once=x._bit_length_computed_at_least_once)
                           for x in b._structs],
                 _element_callback=b._element_callback, _is_deprecated=b._is_deprecated,
                 _print_output_handler=_View(calls=list(b._print_output_handler.calls)))


def _mk_native_type(k):
    from pydsdl import _serializable as S

    sat = S.PrimitiveType.CastMode.SATURATED
    return {"u8": lambda: S.UnsignedIntegerType(8, sat), "f32": lambda: S.FloatType(32, sat), "bool": S.BooleanType,
            "void": lambda: S.VoidType(8), "arr": lambda: S.FixedLengthArrayType(S.UnsignedIntegerType(8, sat), 3)}[k]()


def _mk_native_value(v):
    from pydsdl import _expression as X

    if isinstance(v, bool):
        return X.Boolean(v)
    if isinstance(v, int):
        return X.Rational(v)
    if isinstance(v, str):
        return X.String(v)
    return X.Set([X.Rational(1)])


def _apply_native(b, op):
    k = op[0]
    if k == "field":
        b.on_field(_mk_native_type(op[1]), op[2])
    elif k == "const":
        b.on_constant(_mk_native_type(op[1]), op[2], _mk_native_value(op[3]))
    elif k == "pad":
        b.on_padding_field(_mk_native_type("void"))
    elif k == "acomment":
        b.on_attribute_comment(op[1])
    elif k == "hcomment":
        b.on_header_comment(op[1])
    elif k == "marker":
        b.on_service_response_marker()
    elif k == "directive":
        b.on_directive(op[1], op[2], None if op[3] is None else _mk_native_value(op[3]))
    elif k == "offset":
        b._structs[-1].offset  # sets the 'computed' flag


def _gen_op(rng, kinds):
    k = rng.choice(kinds)
    if k == "field":
        return ["field", rng.choice(["u8", "f32", "bool", "arr"]), rng.choice(["a", "b", "x_1", "9bad", "", "uint8"])]
    if k == "const":
        return ["const", rng.choice(["u8", "f32", "bool", "arr"]), rng.choice(["A", "B", "bad name"]),
                rng.choice([1, 1000, True, "a", "ab", None])]
    if k == "acomment":
        return ["acomment", rng.choice(["", "doc", "two\nlines"])]
    if k == "hcomment":
        return ["hcomment", rng.choice(["", "header"])]
    if k == "directive":
        n = rng.choice(DIRECTIVE_NAMES + ["bogus"])
        return ["directive", rng.randrange(1, 9), n, rng.choice([None, None, True, False, 64, "s"])]
    return [k]


def _gen_builder_case(op_kinds):
    def gen(rng, i):
        pre = [_gen_op(rng, ["field", "const", "pad", "acomment", "hcomment", "marker", "directive", "offset", "acomment"])
               for _ in range(rng.randrange(0, 5))]
        return {"pre": pre, "op": _gen_op(rng, op_kinds)}
    return gen


def _build_builder_case(desc):
    import pydsdl
    from pydsdl._data_type_builder import DataTypeBuilder
    from pydsdl._data_schema_builder import DataSchemaBuilder

    b = DataTypeBuilder.__new__(DataTypeBuilder)
    b._structs = [DataSchemaBuilder()]
    b._element_callback = None
    b._is_deprecated = False
    b._print_output_handler = _Rec()
    import pathlib

    b._definition = _View(file_path=pathlib.Path("ns/A.1.0.dsdl"))
    for op in desc["pre"]:
        try:
            _apply_native(b, op)
        except pydsdl.FrontendError:
            pass
        except AssertionError:
            raise ValueError("unreachable builder state")
    op = desc["op"]
    if op[0] in ("marker", "directive") and b._element_callback is not None:
        b.on_attribute_comment("")  # the protocol precondition of these calls: nothing pending
    ns = {"self": b, "old": native_snapshot(b)}
    if op[0] == "field":
        ns.update(field_type=_mk_native_type(op[1]), name=op[2])
        return (lambda: b.on_field(ns["field_type"], ns["name"])), ns
    if op[0] == "const":
        ns.update(constant_type=_mk_native_type(op[1]), name=op[2], value=_mk_native_value(op[3]))
        return (lambda: b.on_constant(ns["constant_type"], ns["name"], ns["value"])), ns
    if op[0] == "pad":
        ns.update(padding_field_type=_mk_native_type("void"))
        return (lambda: b.on_padding_field(ns["padding_field_type"])), ns
    if op[0] == "acomment":
        ns.update(comment=op[1])
        return (lambda: b.on_attribute_comment(op[1])), ns
    if op[0] == "hcomment":
        ns.update(comment=op[1])
        return (lambda: b.on_header_comment(op[1])), ns
    if op[0] == "marker":
        return (lambda: b.on_service_response_marker()), ns
    if op[0] == "directive":
        ns.update(line_number=op[1], directive_name=op[2], associated_expression_value=None if op[3] is None else _mk_native_value(op[3]))
        return (lambda: b.on_directive(ns["line_number"], ns["directive_name"], ns["associated_expression_value"])), ns
    raise ValueError(op)


NATIVE.add(DTB + ".on_field", _gen_builder_case(["field"]), _build_builder_case)
NATIVE.add(DTB + ".on_constant", _gen_builder_case(["const"]), _build_builder_case)
NATIVE.add(DTB + ".on_padding_field", _gen_builder_case(["pad"]), _build_builder_case)
NATIVE.add(DTB + ".on_attribute_comment", _gen_builder_case(["acomment"]), _build_builder_case)
NATIVE.add(DTB + ".on_header_comment", _gen_builder_case(["hcomment"]), _build_builder_case)
NATIVE.add(DTB + ".on_service_response_marker", _gen_builder_case(["marker"]), _build_builder_case)
NATIVE.add(DTB + ".on_directive", _gen_builder_case(["directive"]), _build_builder_case)
NATIVE_BUDGET = {"quick": 300, "thorough": 3000}


# effect obligations (AST, complete for what they state): no argument-keyed cache decorator, no module-level state - see
# specs/common.py (the outcome of reading a text depends on the text and its dependencies, not on earlier reads)
from .common import no_hidden_state_check as _no_hidden_state_check  # noqa: E402
EXTRA_CHECKS = list(globals().get("EXTRA_CHECKS", [])) + [_no_hidden_state_check(
    ["pydsdl._parser", "pydsdl._data_type_builder", "pydsdl._data_schema_builder"], "the parser / builder protocol")]
