"""
C03 - The model mirrors the source text (statement -> model COMMIT PROTOCOL).

What is under contract here (all real code of /repo, VCs generated from the ASTs on every run):
  level 1  DataSchemaBuilder        add_field / add_constant / attributes / fields / constants / set_comment / make_union /
                                    set_serialization_mode
  level 2  DataTypeBuilder          on_header_comment / on_attribute_comment / on_field / on_constant / on_padding_field /
                                    on_service_response_marker / on_directive (+ the six directive handlers)
  level 3  _ParseTreeProcessor      __init__, _flush_comment, visit_line, visit_end_of_line, visit_comment, visit_identifier,
                                    visit_statement_{field,constant,padding_field,service_response_marker,directive_*}
  level 4  specs/drivers/c03_driver.py  the ASSUMED parsimonious traversal of one `line` node (children first, left to
                                    right, then visit_<rule>), written as Python whose body calls the REAL visitors; the
                                    protocol invariant INV is proved per line kind, and the end-of-input requirement of the
                                    property ("nothing pending") is an obligation of `end_of_input`.

Oracle: the ghost parameters g_* of the driver steps follow the *documented rule* of the property statement (an
attribute's doc is its same-line comment plus the following comment-only lines up to the next statement or blank line;
the header comment is the comment block before the first statement / blank line of a section), stated per source line -
not per visitor event, which is how the code works (deferred flush).
"""
import z3
from pyvc.spec import contract, class_spec, inline_ok
from pyvc.values import (Int, Bool, Str, Opt, Rec, SeqOf, ObjOf, MutObjOf, ListK, ClosureOf, Const, SymSeq, PyList, Obj,
                         SymClosure, OptV, RecorderK)
from pyvc.speclib import AND, OR, NOT, IMPLIES, IFF, ITE, EQ, IS_NONE, VAL, ISINST, LEN, AT, smt
from pyvc import speclib
from .common import SERIALIZABLE, ANY, ATTRIBUTE, FIELD, PADDING, CONSTANT, VOID_T, COMPOSITE

P = ["C03"]
P17 = ["C03", "C17"]

DSB = "pydsdl._data_schema_builder.DataSchemaBuilder"
SMODE = "pydsdl._data_schema_builder.SerializationMode"
DELIM_MODE = "pydsdl._data_schema_builder.DelimitedSerializationMode"
SEALED_MODE = "pydsdl._data_schema_builder.SealedSerializationMode"
DTB = "pydsdl._data_type_builder.DataTypeBuilder"
SSP = "pydsdl._parser.StatementStreamProcessor"
PTP = "pydsdl._parser._ParseTreeProcessor"
RDF = "pydsdl._dsdl.ReadableDSDLFile"


# ------------------------------------------------------------------------------------------------ sequence vocabulary
def _ref(x):
    return x.ref if isinstance(x, Obj) else x


def _forall(i, body, pats):
    """Quantifier with the given triggers where z3 accepts them (a lambda-valued array cannot be a trigger)."""
    try:
        return z3.ForAll([i], body, patterns=pats)
    except z3.Z3Exception:
        return z3.ForAll([i], body)


def IMP(a, b):
    """Implication whose consequent (possibly a thunk) is not even built when the antecedent is concretely false."""
    if isinstance(a, bool):
        return speclib._force(b) if a else True
    return IMPLIES(a, b)


def SAME(a, b):
    """`a is b` (objects) / equal immutable values."""
    if smt():
        from pyvc import mutstate

        return speclib._b(mutstate.identical(speclib.CTX.engine, speclib.CTX, a, b))
    if isinstance(a, (str, int, bool)) or a is None:
        return a == b and type(a) is type(b)
    return a is b


def SEQ_SAME(new, old):
    """Same length, pointwise the same objects."""
    if smt():
        if isinstance(new, PyList) or isinstance(old, PyList):
            n_items = new.items if isinstance(new, PyList) else None
            o_items = old.items if isinstance(old, PyList) else None
            if n_items is not None and o_items is not None:
                return AND(len(n_items) == len(o_items), *[SAME(x, y) for x, y in zip(n_items, o_items)])
        i = z3.FreshConst(z3.IntSort(), "i")
        return z3.And(new.length == old.length,
                      _forall(i, z3.Implies(z3.And(0 <= i, i < old.length),
                                            z3.Select(new.arr, i) == z3.Select(old.arr, i)), [z3.Select(new.arr, i)]))
    return len(new) == len(old) and all(x is y for x, y in zip(new, old))


def SEQ_APPENDED(new, old, x=None):
    """new == old ++ [x]   (x omitted: new is old plus exactly one more element)."""
    if smt():
        i = z3.FreshConst(z3.IntSort(), "i")
        cs = [new.length == old.length + 1,
              _forall(i, z3.Implies(z3.And(0 <= i, i < old.length), z3.Select(new.arr, i) == z3.Select(old.arr, i)),
                      [z3.Select(new.arr, i)])]
        if x is not None:
            cs.append(z3.Select(new.arr, old.length) == _ref(x))
        return z3.And(*cs)
    return len(new) == len(old) + 1 and all(a is b for a, b in zip(new, old)) and (x is None or new[-1] is x)


def SEQ_CONCAT(res, a, b):
    """res == a ++ b"""
    if smt():
        i = z3.FreshConst(z3.IntSort(), "i")
        j = z3.FreshConst(z3.IntSort(), "j")
        return z3.And(
            res.length == a.length + b.length,
            _forall(i, z3.Implies(z3.And(0 <= i, i < a.length), z3.Select(res.arr, i) == z3.Select(a.arr, i)),
                    [z3.Select(res.arr, i)]),
            _forall(j, z3.Implies(z3.And(0 <= j, j < b.length), z3.Select(res.arr, a.length + j) == z3.Select(b.arr, j)),
                    [z3.Select(b.arr, j)]))
    return len(res) == len(a) + len(b) and all(x is y for x, y in zip(res, list(a) + list(b)))


def LAST(seq):
    if smt():
        return seq.at(speclib.CTX, seq.length - 1)
    return seq[-1]


# ------------------------------------------------------------------------------------------------ level 1: schema builder
@class_spec(SMODE)
class _SModeSpec:
    fields = {}


@class_spec(DELIM_MODE)
class _DelimModeSpec:
    fields = dict(extent=Int)


@class_spec(DSB)
class _DSBSpec:
    fields = dict(
        _fields=SeqOf(ObjOf(FIELD)),
        _constants=SeqOf(ObjOf(CONSTANT)),
        _serialization_mode=Opt(ObjOf(SMODE)),
        _is_union=Bool,
        _bit_length_computed_at_least_once=Bool,
        _doc=Str,
    )
    mutable = ["_fields", "_constants", "_serialization_mode", "_is_union", "_bit_length_computed_at_least_once", "_doc"]


inline_ok(DSB + ".doc", DSB + ".serialization_mode", DSB + ".union", DELIM_MODE + ".__init__",
          why="trivial accessor / constructor of the schema builder: inlined (its body is its own strongest contract)")

_DSB_FIELDS = ["_fields", "_constants", "_serialization_mode", "_is_union", "_bit_length_computed_at_least_once", "_doc"]


def dsb_unchanged(new, old, *except_):
    """Frame of a schema builder: every field not listed is what it was."""
    cs = []
    for f in _DSB_FIELDS:
        if f in except_:
            continue
        a, b = getattr(new, f), getattr(old, f)
        if f in ("_fields", "_constants"):
            cs.append(SEQ_SAME(a, b))
        else:
            cs.append(SAME(a, b))
    return AND(*cs)


@contract(DSB + ".__init__", props=P)
class _DSBInit:
    def post(s):
        b = s.self
        return {"empty": AND(LEN(b._fields) == 0, LEN(b._constants) == 0),
                "no-mode": IS_NONE(b._serialization_mode),
                "flags": AND(NOT(b._is_union), NOT(b._bit_length_computed_at_least_once)),
                "no-doc": EQ(b._doc, "")}


@contract(DSB + ".fields", props=P)
class _DSBFields:
    returns = SeqOf(ObjOf(FIELD))

    def post(s):
        return {"the-fields": SEQ_SAME(s.result, s.self._fields), "frame": dsb_unchanged(s.self, s.old)}


@contract(DSB + ".constants", props=P)
class _DSBConstants:
    returns = SeqOf(ObjOf(CONSTANT))

    def post(s):
        return {"the-constants": SEQ_SAME(s.result, s.self._constants), "frame": dsb_unchanged(s.self, s.old)}


@contract(DSB + ".attributes", props=P)
class _DSBAttributes:
    """Statement: fields and paddings in source order, then constants in source order."""
    returns = SeqOf(ObjOf(ATTRIBUTE))

    def post(s):
        return {"fields-then-constants": SEQ_CONCAT(s.result, s.self._fields, s.self._constants),
                "frame": dsb_unchanged(s.self, s.old)}


@contract(DSB + ".set_comment", props=P)
class _DSBSetComment:
    params = dict(comment=Str)
    modifies = ["_doc"]

    def post(s):
        return {"doc": EQ(s.self._doc, s.comment), "frame": dsb_unchanged(s.self, s.old, "_doc")}


@contract(DSB + ".add_field", props=P)
class _DSBAddField:
    params = dict(field=ObjOf(FIELD))
    modifies = ["_fields"]
    raises = {"BitLengthAnalysisError": lambda s: AND(s.old._is_union, s.old._bit_length_computed_at_least_once)}

    def post(s):
        return {"appended-last": SEQ_APPENDED(s.self._fields, s.old._fields, s.field),
                "frame": dsb_unchanged(s.self, s.old, "_fields")}


@contract(DSB + ".add_constant", props=P)
class _DSBAddConstant:
    params = dict(constant=ObjOf(CONSTANT))
    modifies = ["_constants"]

    def post(s):
        return {"appended-last": SEQ_APPENDED(s.self._constants, s.old._constants, s.constant),
                "frame": dsb_unchanged(s.self, s.old, "_constants")}


@contract(DSB + ".set_serialization_mode", props=P)
class _DSBSetMode:
    params = dict(mode=ObjOf(SMODE))
    modifies = ["_serialization_mode"]

    def pre(s):
        return {"mode-not-set-yet": IS_NONE(s.self._serialization_mode)}

    def post(s):
        return {"mode": AND(NOT(IS_NONE(s.self._serialization_mode)), lambda: SAME(VAL(s.self._serialization_mode), s.mode)),
                "frame": dsb_unchanged(s.self, s.old, "_serialization_mode")}


@contract(DSB + ".make_union", props=P)
class _DSBMakeUnion:
    modifies = ["_is_union"]

    def pre(s):
        return {"not-yet-union": NOT(s.self._is_union)}

    def post(s):
        return {"union": s.self._is_union, "frame": dsb_unchanged(s.self, s.old, "_is_union")}


# ------------------------------------------------------------------------------------------------ attributes (assumed)
@contract(ATTRIBUTE + ".__init__", props=P)
class _AttributeInitAssumed:
    """Field(...) / Attribute(...): stores what it is given; names are C05's business (may reject)."""
    params = dict(data_type=ObjOf(SERIALIZABLE), name=Str, doc=Str)
    raises = {"InvalidNameError": None}
    verify = False
    assumed = "Attribute.__init__ stores type/name/doc as given (3 assignments); the name check is the subject of C05"

    def post(s):
        return {"type": SAME(s.self._data_type, s.data_type), "name": EQ(s.self._name, s.name), "doc": EQ(s.self._doc, s.doc)}


@contract(PADDING + ".__init__", props=P)
class _PaddingInitAssumed:
    params = dict(data_type=ObjOf(SERIALIZABLE), doc=Str)
    raises = {"TypeParameterError": lambda s: NOT(ISINST(s.data_type, "VoidType"))}
    verify = False
    assumed = "PaddingField.__init__ forwards (type, '', doc) to Attribute.__init__ after the void-type check"

    def post(s):
        return {"type": SAME(s.self._data_type, s.data_type), "name": EQ(s.self._name, ""), "doc": EQ(s.self._doc, s.doc)}


def is_string_value(v):
    return ISINST(v, "pydsdl._expression._primitive.String")


@contract(CONSTANT + ".__init__", props=P)
class _ConstantInitAssumed:
    params = dict(data_type=ObjOf(SERIALIZABLE), name=Str, value=ObjOf(ANY), doc=Str)
    raises = {"InvalidNameError": None, "InvalidTypeError": None, "InvalidConstantValueError": None}
    verify = False
    assumed = ("Constant.__init__ is verified under C12 (accepted iff compliant; value stored as given, a one-character "
               "string as its code point); here only what it stores is used")

    def post(s):
        return {"type": SAME(s.self._data_type, s.data_type), "name": EQ(s.self._name, s.name), "doc": EQ(s.self._doc, s.doc),
                "value-as-given": IMPLIES(NOT(is_string_value(s.value)), lambda: SAME(s.self._value, s.value))}


@contract("pydsdl._expression._primitive.Rational.as_native_integer", props=P)
class _AsNativeIntegerAssumed:
    returns = Int
    raises = {"InvalidOperandError": None}
    verify = False
    assumed = "Rational.as_native_integer: the numerator of an integral rational, InvalidOperandError otherwise (C04)"


# ------------------------------------------------------------------------------------------------ level 2: type builder
SITES = [DTB + ".on_field", DTB + ".on_constant", DTB + ".on_padding_field"]
T_NONE, T_FIELD, T_CONST, T_PAD = 0, 1, 2, 3
PendingK = ClosureOf(SITES, [ObjOf(SERIALIZABLE), Str, ObjOf(ANY)])


@class_spec(RDF)
class _RDFSpec:
    fields = {}


DSDLFILE = "pydsdl._dsdl.DSDLFile"


def FILE_PATH(d):
    """The file path of a definition (ghost function of the definition object; a Path, compared as a value)."""
    if smt():
        from pyvc.values import RefSort

        return speclib.CTX.engine.uf("ghost!file_path", RefSort, z3.StringSort())(d.ref)
    return d.file_path


for _cls in (DSDLFILE, RDF):
    @contract(_cls + ".file_path", props=P17)
    class _FilePathIface:
        returns = Str
        verify = False
        assumed = "interface: the file path of a definition is a fixed attribute of the definition object"

        def post(s):
            return {"file-path": EQ(s.result, FILE_PATH(s.self))}


@class_spec(DTB)
class _DTBSpec:
    fields = dict(
        _definition=ObjOf(RDF),
        _lookup_definitions=SeqOf(ObjOf(RDF)),
        _definition_visitors=SeqOf(ObjOf("pydsdl._dsdl.DefinitionVisitor")),
        _print_output_handler=RecorderK("print_output_handler"),
        _allow_unregulated_fixed_port_id=Bool,
        _element_callback=PendingK,
        _structs=ListK(MutObjOf(DSB)),
        _is_deprecated=Bool,
    )
    mutable = ["_element_callback", "_structs", "_is_deprecated"]
    owns_state = True


_DSBSpec.owns_state = True
from pyvc.spec import REG as _REG

_REG.classes[DSB].owns_state = True


class _View:
    def __init__(self, **kw):
        self.__dict__.update(kw)


def PENDING(b):
    """The pending attribute statement of a builder: tag (0 none, 1 field, 2 constant, 3 padding) and the statement's
    type / name / value - read off the stored callback (abstraction function of `_element_callback`)."""
    cb = b._element_callback
    if smt():
        from pyvc import mutstate

        tag, slots, owner = mutstate.closure_view(speclib.CTX.engine, cb, SITES)
        return _View(tag=tag, T=slots[0], name=slots[1], value=slots[2])
    if cb is None:
        return _View(tag=0, T=None, name=None, value=None)
    import inspect
    from pydsdl._data_type_builder import DataTypeBuilder

    site = cb.__qualname__.split(".")[-3]
    tag = {"on_field": 1, "on_constant": 2, "on_padding_field": 3}[site]
    free = dict(zip(cb.__code__.co_freevars, [c.cell_contents for c in cb.__closure__]))
    names = [n for n in inspect.signature(getattr(DataTypeBuilder, site)).parameters][1:]
    slots = [free.get(n) for n in names] + [None, None, None]
    return _View(tag=tag, T=slots[0], name=slots[1], value=slots[2])


def SECS(b):
    st = b._structs
    return st.items if smt() else st


def CUR(b):
    return SECS(b)[-1]


def NO_PENDING(b):
    return PENDING(b).tag == 0


def WF(b):
    """Representation invariant of the builder (established by __init__, preserved by every on_* method)."""
    p = PENDING(b)
    return AND(IMPLIES(p.tag == T_PAD, lambda: ISINST(p.T, "VoidType")))


def commit_clauses(s, doc):
    """Effect of committing the pending statement of the pre-state (if any) with the given doc text: exactly one
    attribute, built from exactly that statement, appended to the list of its kind in the CURRENT section; nothing else
    moves."""
    new_secs, old_secs = SECS(s.self), SECS(s.old)
    cn, co = new_secs[-1], old_secs[-1]
    p = PENDING(s.old)
    is_f = OR(p.tag == T_FIELD, p.tag == T_PAD)
    is_c = p.tag == T_CONST
    out = {
        "nothing-pending-nothing-committed": IMPLIES(p.tag == T_NONE, lambda: AND(SEQ_SAME(cn._fields, co._fields),
                                                                                 SEQ_SAME(cn._constants, co._constants))),
        "field-committed-once-at-the-end": IMPLIES(is_f, lambda: AND(SEQ_APPENDED(cn._fields, co._fields),
                                                                    SEQ_SAME(cn._constants, co._constants))),
        "field-as-declared": IMPLIES(is_f, lambda: AND(
            SAME(LAST(cn._fields)._data_type, p.T),
            EQ(LAST(cn._fields)._name, ITE(p.tag == T_PAD, "", p.name)),
            EQ(LAST(cn._fields)._doc, doc),
            IFF(ISINST(LAST(cn._fields), "PaddingField"), p.tag == T_PAD))),
        "constant-committed-once-at-the-end": IMPLIES(is_c, lambda: AND(SEQ_APPENDED(cn._constants, co._constants),
                                                                       SEQ_SAME(cn._fields, co._fields))),
        "constant-as-declared": IMPLIES(is_c, lambda: AND(
            SAME(LAST(cn._constants)._data_type, p.T),
            EQ(LAST(cn._constants)._name, p.name),
            EQ(LAST(cn._constants)._doc, doc),
            IMPLIES(NOT(is_string_value(p.value)), lambda: SAME(LAST(cn._constants)._value, p.value)))),
        "same-sections": len(new_secs) == len(old_secs),
        "section-frame": dsb_unchanged(cn, co, "_fields", "_constants"),
        "other-sections-untouched": AND(*[dsb_unchanged(a, b) for a, b in zip(new_secs[:-1], old_secs[:-1])]),
        "deprecated-unchanged": EQ(s.self._is_deprecated, s.old._is_deprecated),
    }
    return out


def commit_raises():
    """What committing a pending statement may raise (conditions of the attribute constructors are C05/C12's)."""
    return {
        "BitLengthAnalysisError": lambda s: AND(OR(PENDING(s.old).tag == T_FIELD, PENDING(s.old).tag == T_PAD),
                                                CUR(s.old)._is_union, CUR(s.old)._bit_length_computed_at_least_once),
        "InvalidNameError": None,            # conditions of the attribute constructors: C05 (names), C12 (constants)
        "InvalidTypeError": None,
        "InvalidConstantValueError": None,
    }


def _one_sided(d):
    """raises-clauses that are only claimed in the direction `raise X => cond` (the converse is C05/C12's business)."""
    return d


def havoc_sections(s):
    out = [(s.self, "_element_callback")]
    for sec in SECS(s.self):
        out += [(sec, "_fields"), (sec, "_constants")]
    return out


def pending_is(b, tag, T=None, name=None, value=None):
    p = PENDING(b)
    cs = [p.tag == tag]
    if T is not None:
        cs.append(lambda: SAME(p.T, T))
    if name is not None:
        cs.append(lambda: EQ(p.name, name))
    if value is not None:
        cs.append(lambda: SAME(p.value, value))
    return AND(*cs)


def _attr_raises(extra=None):
    d = {}
    d["InvalidDirectiveError"] = lambda s: ISINST(VAL(CUR(s.old)._serialization_mode), "DelimitedSerializationMode") \
        if not smt() else _is_delimited(CUR(s.old)._serialization_mode)
    d.update(commit_raises())
    return d


def _is_delimited(m):
    """The section's serialization mode is the delimited one (extent set)."""
    if smt():
        if isinstance(m, OptV):
            return AND(NOT(speclib._b(m.is_none)), ISINST(m.val, "DelimitedSerializationMode"))
        if m is None:
            return False
        return ISINST(m, "DelimitedSerializationMode")
    return ISINST(m, "DelimitedSerializationMode")


_TWO_SECTION_INSTANCES = lambda: [{"self._structs": ListK(MutObjOf(DSB))}, {"self._structs": ListK(MutObjOf(DSB), MutObjOf(DSB))}]


@contract(DTB + ".on_header_comment", props=P)
class _OnHeaderComment:
    params = dict(comment=Str)
    instances = _TWO_SECTION_INSTANCES
    havoc = lambda s: [(CUR(s.self), "_doc")]

    def post(s):
        new_secs, old_secs = SECS(s.self), SECS(s.old)
        return {"doc-of-current-section": EQ(CUR(s.self)._doc, s.comment),
                "section-frame": dsb_unchanged(new_secs[-1], old_secs[-1], "_doc"),
                "other-sections-untouched": AND(*[dsb_unchanged(a, b) for a, b in zip(new_secs[:-1], old_secs[:-1])]),
                "pending-unchanged": _pending_same(s.self, s.old),
                "deprecated-unchanged": EQ(s.self._is_deprecated, s.old._is_deprecated)}


def _pending_same(new, old):
    p, q = PENDING(new), PENDING(old)
    return AND(p.tag == q.tag, IMPLIES(NOT(p.tag == T_NONE), lambda: AND(
        SAME(p.T, q.T), IMPLIES(NOT(p.tag == T_PAD), lambda: EQ(p.name, q.name)),
        IMPLIES(p.tag == T_CONST, lambda: SAME(p.value, q.value)))))


@contract(DTB + ".on_attribute_comment", props=P)
class _OnAttributeComment:
    params = dict(comment=Str)
    instances = _TWO_SECTION_INSTANCES
    havoc = havoc_sections
    raises = commit_raises()

    def pre(s):
        return {"wf": WF(s.self)}

    def post(s):
        out = {"nothing-pending-afterwards": NO_PENDING(s.self), "wf": WF(s.self)}
        out.update(commit_clauses(s, s.comment))
        return out


@contract(DTB + ".on_field", props=P)
class _OnField:
    params = dict(field_type=ObjOf(SERIALIZABLE), name=Str)
    instances = _TWO_SECTION_INSTANCES
    havoc = havoc_sections
    raises = _attr_raises()

    def pre(s):
        return {"wf": WF(s.self)}

    def post(s):
        out = {"exactly-this-statement-pending": pending_is(s.self, T_FIELD, s.field_type, s.name), "wf": WF(s.self)}
        out.update(commit_clauses(s, ""))
        return out


@contract(DTB + ".on_constant", props=P)
class _OnConstant:
    params = dict(constant_type=ObjOf(SERIALIZABLE), name=Str, value=ObjOf(ANY))
    instances = _TWO_SECTION_INSTANCES
    havoc = havoc_sections
    raises = _attr_raises()

    def pre(s):
        return {"wf": WF(s.self)}

    def post(s):
        out = {"exactly-this-statement-pending": pending_is(s.self, T_CONST, s.constant_type, s.name, s.value),
               "wf": WF(s.self)}
        out.update(commit_clauses(s, ""))
        return out


@contract(DTB + ".on_padding_field", props=P)
class _OnPaddingField:
    params = dict(padding_field_type=ObjOf(VOID_T))
    instances = _TWO_SECTION_INSTANCES
    havoc = havoc_sections
    raises = _attr_raises()

    def pre(s):
        return {"wf": WF(s.self)}

    def post(s):
        out = {"exactly-this-statement-pending": pending_is(s.self, T_PAD, s.padding_field_type), "wf": WF(s.self)}
        out.update(commit_clauses(s, ""))
        return out


def sections_content_same(new, old):
    """No attribute committed, no doc changed: the lists and docs of all sections are what they were."""
    ns_, os_ = SECS(new), SECS(old)
    return AND(len(ns_) == len(os_), *[AND(SEQ_SAME(a._fields, b._fields), SEQ_SAME(a._constants, b._constants),
                                          EQ(a._doc, b._doc), SAME(a.ref if smt() else a, b.ref if smt() else b))
                                      for a, b in zip(ns_, os_)])


def dsb_is_empty(b):
    return AND(LEN(b._fields) == 0, LEN(b._constants) == 0, IS_NONE(b._serialization_mode), NOT(b._is_union),
               NOT(b._bit_length_computed_at_least_once), EQ(b._doc, ""))


@contract(DTB + ".on_service_response_marker", props=P)
class _OnMarker:
    instances = _TWO_SECTION_INSTANCES
    raises = {"InvalidDefinitionError": lambda s: len(SECS(s.old)) > 1}
    havoc = lambda s: [(s.self, "_structs", ListK(MutObjOf(DSB), MutObjOf(DSB)))]

    def pre(s):
        # protocol: the caller flushes first - a statement still pending here would be committed into the response section
        return {"no-pending-attribute": NO_PENDING(s.self), "wf": WF(s.self)}

    def post(s):
        new_secs, old_secs = SECS(s.self), SECS(s.old)
        return {"two-sections": len(new_secs) == 2,
                "request-section-kept": AND(SAME(new_secs[0].ref if smt() else new_secs[0],
                                                 old_secs[0].ref if smt() else old_secs[0]),
                                            dsb_unchanged(new_secs[0], old_secs[0])),
                "response-section-empty": dsb_is_empty(new_secs[-1]),
                "still-nothing-pending": NO_PENDING(s.self),
                "deprecated-unchanged": EQ(s.self._is_deprecated, s.old._is_deprecated)}


# ---- directives
DIRECTIVE_NAMES = ["print", "assert", "extent", "sealed", "union", "deprecated"]


class _OtherName(type(Str)):
    """A directive name that is none of the known ones."""

    def build(self, ctx, mk):
        t = mk("", z3.StringSort())
        ctx.assume(z3.And(*[t != z3.StringVal(n) for n in DIRECTIVE_NAMES]))
        return t

    def __repr__(self):
        return "other-name"


def STR_OF(v):
    """str(v) of an expression value."""
    if smt():
        return speclib.CTX.engine.lib.bi_str(speclib.CTX, v)
    return str(v)


def _dir_instances():
    out = []
    for secs in (ListK(MutObjOf(DSB)), ListK(MutObjOf(DSB), MutObjOf(DSB))):
        for n in DIRECTIVE_NAMES + [_OtherName()]:
            out.append({"self._structs": secs, "directive_name": n})
    return out


def _known(name):
    return isinstance(name, str) and name in DIRECTIVE_NAMES


def _is(name, which):
    return isinstance(name, str) and name == which


def _has_attributes(sec):
    return LEN(sec._fields) + LEN(sec._constants) > 0


def _val(s):
    return s.associated_expression_value


def _val_isinst(s, clsname):
    v = _val(s)
    if smt():
        if isinstance(v, OptV):
            return AND(NOT(speclib._b(v.is_none)), ISINST(v.val, clsname))
        if v is None:
            return False
    return ISINST(v, clsname)


BOOLEAN_XQ = "pydsdl._expression._primitive.Boolean"
RATIONAL_XQ = "pydsdl._expression._primitive.Rational"


def _bool_value(s):
    v = VAL(_val(s))
    return speclib.AS(v, BOOLEAN_XQ)._value


def _directive_rejected(s):
    """The misuse rules of the directives (from the in-code messages / Specification 3.6): when InvalidDirectiveError."""
    n, old = s.directive_name, s.old
    cur = CUR(old)
    none = IS_NONE(_val(s))
    if not _known(n):
        return True
    if n == "print":
        return False
    if n == "assert":
        return OR(none, NOT(_val_isinst(s, BOOLEAN_XQ)))
    if n == "extent":
        return OR(NOT(IS_NONE(cur._serialization_mode)), none, NOT(_val_isinst(s, RATIONAL_XQ)))
    if n == "sealed":
        return OR(NOT(IS_NONE(cur._serialization_mode)), NOT(none))
    if n == "union":
        return OR(NOT(none), cur._is_union, _has_attributes(cur))
    if n == "deprecated":
        return OR(NOT(none), old._is_deprecated, len(SECS(old)) > 1, _has_attributes(cur))
    raise AssertionError(n)


def _calls(b):
    h = b._print_output_handler
    if smt():
        return h.calls.items
    return h.calls


@contract(DTB + ".on_directive", props=P17)
class _OnDirective:
    params = dict(line_number=Int, directive_name=Str, associated_expression_value=Opt(ObjOf(ANY)))
    instances = _dir_instances
    havoc = lambda s: [(s.self, "_is_deprecated"), (CUR(s.self), "_is_union"), (CUR(s.self), "_serialization_mode")]
    raises = {
        "AssertionCheckFailureError": lambda s: AND(_is(s.directive_name, "assert"), lambda: _val_isinst(s, BOOLEAN_XQ),
                                                    lambda: NOT(_bool_value(s))),
        "InvalidDirectiveError": _directive_rejected,
        "InvalidOperandError": None,  # @extent with a non-integral rational (Rational.as_native_integer, C04)
    }

    def pre(s):
        # protocol: the caller flushes first (`attributes` does not see a pending statement: @union / @deprecated
        # "before the first attribute" would otherwise be accepted after one)
        return {"no-pending-attribute": NO_PENDING(s.self), "wf": WF(s.self)}

    def post(s):
        n = s.directive_name
        cn, co = CUR(s.self), CUR(s.old)
        new_calls, old_calls = _calls(s.self), _calls(s.old)
        out = {
            "no-attribute-moves": sections_content_same(s.self, s.old),
            "still-nothing-pending": NO_PENDING(s.self),
            "computed-flag-kept": AND(*[EQ(a._bit_length_computed_at_least_once, b._bit_length_computed_at_least_once)
                                        for a, b in zip(SECS(s.self), SECS(s.old))]),
            "other-sections-untouched": AND(*[dsb_unchanged(a, b) for a, b in zip(SECS(s.self)[:-1], SECS(s.old)[:-1])]),
            "union-flag": IFF(cn._is_union, OR(co._is_union, _is(n, "union"))),
            "deprecated-flag": IFF(s.self._is_deprecated, OR(s.old._is_deprecated, _is(n, "deprecated"))),
            "mode-kept-unless-set": IMP(not (_is(n, "sealed") or _is(n, "extent")),
                                            lambda: SAME(cn._serialization_mode, co._serialization_mode)),
            "sealed": IMP(_is(n, "sealed"), lambda: ISINST(VAL(cn._serialization_mode), "SealedSerializationMode")),
            "delimited": IMP(_is(n, "extent"), lambda: ISINST(VAL(cn._serialization_mode), "DelimitedSerializationMode")),
            # C17: @print output is delivered exactly once per evaluated directive, with the line of that directive
            "print-delivered-exactly-once": (len(new_calls) == len(old_calls) + (1 if _is(n, "print") else 0)),
            "print-carries-line-and-text": IMP(_is(n, "print"), lambda: AND(
                len(new_calls[-1]) == 2, EQ(new_calls[-1][0], s.line_number),
                EQ(new_calls[-1][1], ITE(IS_NONE(_val(s)), "", lambda_free_str(s))))),
        }
        return out


def lambda_free_str(s):
    v = _val(s)
    if smt():
        if isinstance(v, OptV):
            return STR_OF(v.val)
        return STR_OF(v) if v is not None else ""
    return str(v) if v is not None else ""


# ------------------------------------------------------------------------------------------------ native harness
from pyvc.native import NativeSuite

NATIVE = NativeSuite()
LEVEL = "proof"
NOT_COVERED = []
EXPLANATION = ""
ASSUMPTIONS = []
