"""
C07 - Deserialization is total and obeys implicit truncation / zero extension.

The contracts live in specs/c06.py (one module for pydsdl/_serdes.py); the ones tagged C07 are the bit reader (which bits a
read returns: zeros beyond the data and beyond the limit of a bounded sub-reader; the offset always advances), the
validation of array length prefixes / union tags / delimiter headers (rejected, not clamped) and the exception classes of
every _deserialize_* function and of deserialize().
"""
from . import c06 as _c
from .c06 import LEAN, LEVEL, NATIVE_BUDGET  # noqa
from pyvc.native import NativeSuite

NATIVE = NativeSuite()
for _q, _g, _b in _c.NATIVE.cases:
    if "_BitReader" in _q or "deserialize" in _q:
        NATIVE.add(_q, _g, _b)


def _bounded_c07(eng, tier, seed):
    r = _c._bounded_codec(eng, tier, seed)
    r["name"] = "C07 part of the " + r["name"]
    return r


EXTRA_CHECKS = [_bounded_c07, _c._no_hidden_state]  # "no dependence on data outside b": the decoder keeps no state between calls
NOT_COVERED = _c.NOT_COVERED_C07
EXPLANATION = _c.EXPLANATION_C07
ASSUMPTIONS = _c.ASSUMPTIONS
