"""
C13, part 3: a SERVICE type used where a data type / value with a layout is expected.

`ServiceType.bit_length_set` raises TypeError by design ("not directly serializable").  Every consumer of a type expression
must therefore either reject a service type with an InvalidDefinitionError or never ask for its layout:
  * array constructors (element type),                       -> ArrayType.__init__ rejects it (InvalidElementTypeError)
  * composite constructors (field types: aggregation check),  -> ServiceType._check_aggregation reports a failure
  * the `_extent_` / `_bit_length_` attributes of expressions -> undefined attribute (TypeError is caught)

The layout contracts proper (C02, specs/c02.py) *assume* "not a service type" as a precondition; here only the exception
classes are stated, without that precondition.  specs/c02.py is not loaded together with this module: the few contracts of
serializable-type members used below are light interface contracts (exception classes only), each citing where its body
is verified.
"""
import z3
from pyvc import ext_expr as X
from pyvc.spec import contract, class_spec, inline_ok, loop_invariant, REG
from pyvc.values import Int, Bool, Str, ObjOf, SeqOf, Opt
from pyvc.speclib import AND, OR, NOT, IMPLIES, IFF, EQ, ISINST, AS, smt
from pyvc import speclib
from .common import ANY, COMPOSITE, SERVICE, DELIMITED, SERIALIZABLE, STRING_X, RATIONAL_X, CONSTANT, ATTRIBUTE, BLS_IFACE_RAISES
from . import expr as E

P = ["C13"]
PA_ = ["C13", "C04"]
ARRAY = "pydsdl._serializable._array.ArrayType"
FIXED = "pydsdl._serializable._array.FixedLengthArrayType"
VARIABLE = "pydsdl._serializable._array.VariableLengthArrayType"
STRUCT = "pydsdl._serializable._composite.StructureType"
UNION = "pydsdl._serializable._composite.UnionType"
BLS = "pydsdl._bit_length_set._bit_length_set.BitLengthSet"
PTP = E.PTP


def is_service(t):
    return ISINST(t, "ServiceType")


@class_spec(BLS)
class _BlsSpec:
    fields = {}


@class_spec(ARRAY)
class _ArraySpec:
    fields = dict(_element_type=ObjOf(SERIALIZABLE), _capacity=Int)


inline_ok(ARRAY + ".element_type", ARRAY + ".capacity", COMPOSITE + ".attributes", COMPOSITE + ".constants",
          why="trivial accessor: inlined")


# ------------------------------------------------------------------------------------------------ the source of the TypeError
@contract(SERVICE + ".bit_length_set", props=PA_)
class _ServiceBls:
    """A service type has no layout of its own: asking for it is a TypeError (documented behaviour)."""
    never_returns = True
    raises = {"TypeError": lambda s: True}


@contract(SERIALIZABLE + ".bit_length_set", props=PA_)
class _BlsIface:
    returns = ObjOf(BLS)
    verify = False
    assumed = ("projection of the C02 interface contract (specs/c02.py _BlsIface) onto exception classes: TypeError iff the "
               "receiver is a ServiceType - the same clause object (specs/common.py BLS_IFACE_RAISES); what the result "
               "denotes is not needed here")
    raises = {"TypeError": BLS_IFACE_RAISES}


@contract(BLS + ".max", props=PA_)
class _BlsMax:
    returns = Int
    verify = False
    assumed = "BitLengthSet.max returns an int (C01)"


@contract(DELIMITED + ".extent", props=PA_)
class _DelimitedExtent:
    returns = Int
    verify = False
    assumed = "DelimitedType.extent returns the stored extent (verified under C02)"


@contract(COMPOSITE + ".extent", props=PA_)
class _CompositeExtent:
    """The inherited `extent` asks for the layout: TypeError exactly for service types."""
    returns = Int
    self_classes = ["StructureType", "UnionType", "ServiceType"]
    raises = {"TypeError": lambda s: is_service(s.self)}


# ------------------------------------------------------------------------------------------------ attributes of type values
PA = ["C13", "C04"]  # the attribute chain: dispatch / error side (the values of the layout intrinsics are C08's subject)


def name_is(name, *texts):
    return OR(*[EQ(E.sv(name), t) for t in texts])


@contract(SERIALIZABLE + "._attribute", props=PA)
class _SerializableAttribute:
    """Every serializable type offers `_bit_length_` (a service type does not: it has no layout); nothing else."""
    returns = ObjOf(ANY)
    verify = False
    assumed = ("dispatch side only: `_bit_length_` is defined unless the receiver is a service type (whose TypeError is caught in "
               "the body), every other name falls through to Any._attribute; body not verified here (iteration over a "
               "BitLengthSet is not modelled; Set.__init__ cannot fail on a non-empty bit length set); the value is C08's subject")
    params = dict(name=ObjOf(STRING_X))
    raises = {"UndefinedAttributeError": lambda s: NOT(AND(name_is(s.name, "_bit_length_"), NOT(is_service(s.self))))}


def CONSTANTS(t):
    """the constants of a composite, in declaration order"""
    from pyvc.speclib import FILTER

    if smt():
        return FILTER(t._attributes, lambda a: ISINST(a, "Constant"))
    return t.constants


def has_constant_named(t, name):
    from pyvc.speclib import EXISTS_IDX

    return EXISTS_IDX(CONSTANTS(t), lambda i, c: EQ(c._name if smt() else c.name, E.sv(name)))


def composite_attribute_defined(t, name):
    """`T.NAME` on a composite type value: a constant of that name, or a layout intrinsic - which a service type lacks"""
    return OR(has_constant_named(t, name), AND(name_is(name, "_extent_", "_bit_length_"), NOT(is_service(t))))


@contract(COMPOSITE + "._attribute", props=PA)
class _CompositeAttribute:
    """Names defined on a composite type value: its constants, `_extent_`, and `_bit_length_` from the base class;
    UndefinedAttributeError for everything else - in particular for the intrinsics of a service type."""
    params = dict(name=ObjOf(STRING_X))
    returns = ObjOf(ANY)
    self_classes = ["StructureType", "UnionType", "DelimitedType", "ServiceType"]
    raises = {"UndefinedAttributeError": lambda s: NOT(composite_attribute_defined(s.self, s.name))}

    def post(s):
        from pyvc.speclib import EXISTS_IDX

        return {"constant-value": IMPLIES(has_constant_named(s.self, s.name), lambda: EXISTS_IDX(
                    CONSTANTS(s.self), lambda i, c: AND(EQ(c._name if smt() else c.name, E.sv(s.name)),
                                                       lambda: (s.result.ref == c._value.ref) if smt() else s.result is c.value))),
                "extent-is-rational": IMPLIES(AND(name_is(s.name, "_extent_"), NOT(is_service(s.self)),
                                                  NOT(has_constant_named(s.self, s.name))),
                                              lambda: E.is_rat(s.result))}


@loop_invariant(COMPOSITE + "._attribute", loop=0)
def _inv_composite_attribute(s):
    from pyvc.speclib import FORALL_IDX

    # no constant met so far carries the requested name
    return {"not-found-yet": FORALL_IDX(s.seq, lambda j, c: NOT(EQ(c._name, E.sv(s.name))), hi=s.i, name="j")}


# ------------------------------------------------------------------------------------------------ arrays
@contract(ARRAY + ".__init__", props=P)
class _ArrayInit:
    """An array of services does not exist: rejected as an invalid definition (not left to fail with TypeError later)."""
    params = dict(element_type=ObjOf(SERIALIZABLE), capacity=Int)
    raises = {"InvalidNumberOfElementsError": lambda s: s.capacity < 1,
              "InvalidElementTypeError": lambda s: AND(s.capacity >= 1, is_service(s.element_type))}

    def post(s):
        return {"element-serializable": NOT(is_service(s.self._element_type)),
                "stored": AND(s.self._element_type.ref == s.element_type.ref if smt() else s.self._element_type is s.element_type,
                              s.self._capacity == s.capacity)}


def _array_iface(q, extra=None):
    class _C:
        params = dict(element_type=ObjOf(SERIALIZABLE), capacity=Int)
        verify = False
        assumed = ("exception classes of the array constructors: those of ArrayType.__init__ (verified above, called first) "
                   "plus InvalidBitLengthError for a capacity no 64-bit prefix can hold; the layout computation that follows "
                   "needs the element's bit length set, which exists because the element is not a service (verified under "
                   "C02 with that precondition, specs/c02.py)")
        raises = {"InvalidNumberOfElementsError": lambda s: s.capacity < 1,
                  "InvalidElementTypeError": lambda s: AND(s.capacity >= 1, is_service(s.element_type))}

    if extra:
        _C.raises = dict(_C.raises, **extra)
    _C.__name__ = "_ArrayIface" + q.split(".")[-1]
    contract(q + ".__init__", props=P)(_C)


_array_iface(FIXED)
_array_iface(VARIABLE, {"InvalidBitLengthError": lambda s: AND(NOT(is_service(s.element_type)), s.capacity >= 2 ** 64)})

_ELEM = ObjOf(SERIALIZABLE)
_O = X.OpaqueK


def _array_visitor(name, children_kinds, elem_idx, len_idx, adjust, array_cls):
    class _C:
        """`T[n]`, `T[<=n]`, `T[<n]`: the element type is whatever type expression precedes the bracket - possibly a
        reference to a service type; only InvalidDefinitionError subclasses may leave."""
        params = dict(_n=_O, children=X.TupleOf(*children_kinds))
        returns = ObjOf(array_cls, exact=True)
        raises = {
            "InvalidOperandError": lambda s: AND(E.is_rat(s.children[len_idx]), lambda: NOT(E.IS_INT(E.rv(s.children[len_idx])))),
            "InvalidNumberOfElementsError": lambda s: AND(_cap_ok(s.children[len_idx]),
                                                          lambda: E.rv(s.children[len_idx]) + adjust < 1),
            "InvalidElementTypeError": lambda s: AND(_cap_ok(s.children[len_idx]),
                                                     lambda: E.rv(s.children[len_idx]) + adjust >= 1,
                                                     is_service(s.children[elem_idx])),
            "InvalidBitLengthError": None,
            "InvalidDefinitionError": lambda s: NOT(E.is_rat(s.children[len_idx])),
        }

    _C.__name__ = "_Visit" + name
    contract(PTP + name, props=P)(_C)


def _cap_ok(ex):
    return AND(E.is_rat(ex), lambda: E.IS_INT(E.rv(ex)))


_array_visitor("visit_type_array_fixed", [_ELEM, _O, _O, _O, ObjOf(ANY), _O, _O], 0, 4, 0, FIXED)
_array_visitor("visit_type_array_variable_inclusive", [_ELEM, _O, _O, _O, _O, _O, ObjOf(ANY), _O, _O], 0, 6, 0, VARIABLE)
_array_visitor("visit_type_array_variable_exclusive", [_ELEM, _O, _O, _O, _O, _O, ObjOf(ANY), _O, _O], 0, 6, -1, VARIABLE)


# ------------------------------------------------------------------------------------------------ fields: aggregation check
def _register_service_aggregation():
    """`ServiceType._check_aggregation` exists only in a tree with the fix; on a tree without it the defect is reported by
    the whole_text check (field of a service type -> InternalError(TypeError)) and by CompositeType.extent/_attribute."""
    from pyvc.frontend import load_repo

    q = SERVICE + "._check_aggregation"
    if q not in load_repo().functions:
        return False

    @contract(q, props=P)
    class _ServiceCheckAggregation:
        """A service type is not a valid member of any aggregate: CompositeType.__init__ turns the failure into an
        AggregationError before the layout of the aggregate is computed."""
        params = dict(aggregate=ObjOf(SERIALIZABLE))

        def post(s):
            return {"always-a-failure": NOT(s.result is None) if not smt() else _not_none(s.result)}

    return True


def _not_none(r):
    from pyvc.values import OptV

    if r is None:
        return False
    if isinstance(r, OptV):
        return NOT(r.is_none)
    return True


SERVICE_AGGREGATION_CHECKED = _register_service_aggregation()


# ------------------------------------------------------------------------------------------------ the attribute operator
def attribute_defined(v, name_text):
    """Which names are defined on which operand class (dispatch table of the `.` operator)."""
    nm = lambda *ts: OR(*[EQ(name_text, t) for t in ts])
    is_comp = ISINST(v, COMPOSITE)
    return OR(AND(E.is_set(v), nm("min", "max", "count")),
              AND(is_comp, lambda: OR(_has_constant_text(v, name_text), AND(nm("_extent_", "_bit_length_"), NOT(is_service(v))))),
              AND(ISINST(v, SERIALIZABLE), NOT(is_comp), nm("_bit_length_")))


def _has_constant_text(t, text):
    from pyvc.speclib import EXISTS_IDX

    t = AS(t, COMPOSITE)
    return EXISTS_IDX(CONSTANTS(t), lambda i, c: EQ(c._name if smt() else c.name, text))


def _name_text(n):
    """the attribute name as text: `attribute` accepts a native str or a String"""
    if smt():
        from pyvc.values import Obj

        return E.sv(n) if isinstance(n, Obj) else n
    return n.native_value if hasattr(n, "native_value") else n


@contract(E.OPMOD + "attribute", props=PA)
class _OpAttribute:
    """`value.NAME`: Boolean / Rational / String values have no attributes; a Set has min, max, count; a serializable type
    has `_bit_length_`; a composite type its constants, `_extent_` and `_bit_length_` (a service type only its constants).
    Everything else is an UndefinedAttributeError.  (min / max of a set of non-rationals with two or more members is an
    UndefinedOperatorError: the comparison is undefined.)"""
    instances = [{"name": Str}, {"name": ObjOf(STRING_X)}]
    params = dict(value=ObjOf(ANY))
    returns = ObjOf(ANY)
    raises = {"UndefinedAttributeError": lambda s: NOT(attribute_defined(s.value, _name_text(s.name)))}
    raises_if = {"UndefinedOperatorError": lambda s: AND(E.is_set(s.value), lambda: NOT(E.ET_IS(s.value, RATIONAL_X)),
                                                         OR(EQ(_name_text(s.name), "min"), EQ(_name_text(s.name), "max")))}

    def pre(s):
        return {"elements-are-not-sets": IMPLIES(E.is_set(s.value), lambda: NOT(E.ET_IS(s.value, E.SET_X)))}

    def post(s):
        t = _name_text(s.name)
        return {"count": IMPLIES(AND(E.is_set(s.value), EQ(t, "count")),
                                 lambda: AND(E.is_rat(s.result), lambda: E.rv(s.result) == E.CARD(s.value))),
                "min": IMPLIES(AND(E.is_set(s.value), EQ(t, "min"), lambda: E.ET_IS(s.value, RATIONAL_X)),
                               lambda: AND(E.MEMBER_OF(s.result, s.value),
                                           E.FORALL_MEMBER(s.value, lambda x: E.rv(s.result) <= E.rv(x)))),
                "max": IMPLIES(AND(E.is_set(s.value), EQ(t, "max"), lambda: E.ET_IS(s.value, RATIONAL_X)),
                               lambda: AND(E.MEMBER_OF(s.result, s.value),
                                           E.FORALL_MEMBER(s.value, lambda x: E.rv(s.result) >= E.rv(x))))}
