"""
C13, part 3: a SERVICE type used where a data type / value with a layout is expected.

`ServiceType.bit_length_set` raises TypeError by design ("not directly serializable").  Every consumer of a type expression
must therefore either reject a service type with an InvalidDefinitionError or never ask for its layout:
  * array constructors (element type),                       -> ArrayType.__init__ rejects it (InvalidElementTypeError)
  * composite constructors (field types: aggregation check),  -> ServiceType._check_aggregation reports a failure
  * the `_extent_` / `_bit_length_` attributes of expressions -> undefined attribute (TypeError is caught)

The layout contracts proper (C02, specs/c02.py) *assume* "not a service type" as a precondition; here only the exception
classes are stated, without that precondition.  specs/c02.py is not loaded together with this module: the few contracts of
serializable-type members used below are light interface contracts (exception classes only), each citing where its body
is verified.
"""
import z3
from pyvc import ext_expr as X
from pyvc.spec import contract, class_spec, inline_ok, loop_invariant, REG
from pyvc.values import Int, Bool, Str, ObjOf, SeqOf, Opt
from pyvc.speclib import AND, OR, NOT, IMPLIES, IFF, EQ, ISINST, AS, smt
from pyvc import speclib
from .common import ANY, COMPOSITE, SERVICE, DELIMITED, SERIALIZABLE, STRING_X, RATIONAL_X, CONSTANT, ATTRIBUTE
from . import expr as E

P = ["C13"]
ARRAY = "pydsdl._serializable._array.ArrayType"
FIXED = "pydsdl._serializable._array.FixedLengthArrayType"
VARIABLE = "pydsdl._serializable._array.VariableLengthArrayType"
STRUCT = "pydsdl._serializable._composite.StructureType"
UNION = "pydsdl._serializable._composite.UnionType"
BLS = "pydsdl._bit_length_set._bit_length_set.BitLengthSet"
PTP = E.PTP


def is_service(t):
    return ISINST(t, "ServiceType")


@class_spec(BLS)
class _BlsSpec:
    fields = {}


@class_spec(ARRAY)
class _ArraySpec:
    fields = dict(_element_type=ObjOf(SERIALIZABLE), _capacity=Int)


inline_ok(ARRAY + ".element_type", ARRAY + ".capacity", COMPOSITE + ".attributes", COMPOSITE + ".constants",
          why="trivial accessor: inlined")


# ------------------------------------------------------------------------------------------------ the source of the TypeError
@contract(SERVICE + ".bit_length_set", props=P)
class _ServiceBls:
    """A service type has no layout of its own: asking for it is a TypeError (documented behaviour)."""
    never_returns = True
    raises = {"TypeError": lambda s: True}


@contract(SERIALIZABLE + ".bit_length_set", props=P)
class _BlsIface:
    returns = ObjOf(BLS)
    verify = False
    assumed = ("interface contract (exception classes only): TypeError iff the receiver is a ServiceType - see "
               "ServiceType.bit_length_set above; every other override returns a BitLengthSet (verified under C02, specs/c02.py)")
    raises = {"TypeError": lambda s: is_service(s.self)}


@contract(BLS + ".max", props=P)
class _BlsMax:
    returns = Int
    verify = False
    assumed = "BitLengthSet.max returns an int (C01)"


@contract(DELIMITED + ".extent", props=P)
class _DelimitedExtent:
    returns = Int
    verify = False
    assumed = "DelimitedType.extent returns the stored extent (verified under C02)"


@contract(COMPOSITE + ".extent", props=P)
class _CompositeExtent:
    """The inherited `extent` asks for the layout: TypeError exactly for service types."""
    returns = Int
    self_classes = ["StructureType", "UnionType", "ServiceType"]
    raises = {"TypeError": lambda s: is_service(s.self)}


# ------------------------------------------------------------------------------------------------ attributes of type values
@contract(SERIALIZABLE + "._attribute", props=P)
class _SerializableAttribute:
    returns = ObjOf(ANY)
    verify = False
    assumed = ("exception classes only: `_bit_length_` yields a Set of rationals or - for a service type, whose TypeError is "
               "caught in the body - falls through to Any._attribute (UndefinedAttributeError); Set.__init__ cannot fail on a "
               "non-empty bit length set.  Body not verified (iteration over a BitLengthSet is not modelled)")
    params = dict(name=ObjOf(STRING_X))
    raises_if = {"UndefinedAttributeError": lambda s: True}


@contract(COMPOSITE + "._attribute", props=P)
class _CompositeAttribute:
    """`T.NAME` on a composite type value: a constant, `_extent_`, or what the base class offers; never anything but
    an undefined-attribute error - in particular for a service type, which has no extent."""
    params = dict(name=ObjOf(STRING_X))
    returns = ObjOf(ANY)
    self_classes = ["StructureType", "UnionType", "DelimitedType", "ServiceType"]
    raises_if = {"UndefinedAttributeError": lambda s: True}

    def post(s):
        return {"extent-is-rational": IMPLIES(AND(EQ(E.sv(s.name), "_extent_"), NOT(is_service(s.self)),
                                                  NOT(_has_constant_named(s.self, s.name))),
                                              lambda: E.is_rat(s.result))}


def _has_constant_named(t, name):
    from pyvc.speclib import EXISTS_IDX

    if smt():
        return EXISTS_IDX(t._attributes, lambda i, a: AND(ISINST(a, "Constant"), lambda: EQ(a._name, E.sv(name))))
    return any(c.name == name.native_value for c in t.constants)


@loop_invariant(COMPOSITE + "._attribute", loop=0)
def _inv_composite_attribute(s):
    return {}


# ------------------------------------------------------------------------------------------------ arrays
@contract(ARRAY + ".__init__", props=P)
class _ArrayInit:
    """An array of services does not exist: rejected as an invalid definition (not left to fail with TypeError later)."""
    params = dict(element_type=ObjOf(SERIALIZABLE), capacity=Int)
    raises = {"InvalidNumberOfElementsError": lambda s: s.capacity < 1,
              "InvalidElementTypeError": lambda s: AND(s.capacity >= 1, is_service(s.element_type))}

    def post(s):
        return {"element-serializable": NOT(is_service(s.self._element_type)),
                "stored": AND(s.self._element_type.ref == s.element_type.ref if smt() else s.self._element_type is s.element_type,
                              s.self._capacity == s.capacity)}


def _array_iface(q, extra=None):
    class _C:
        params = dict(element_type=ObjOf(SERIALIZABLE), capacity=Int)
        verify = False
        assumed = ("exception classes of the array constructors: those of ArrayType.__init__ (verified above, called first) "
                   "plus InvalidBitLengthError for a capacity no 64-bit prefix can hold; the layout computation that follows "
                   "needs the element's bit length set, which exists because the element is not a service (verified under "
                   "C02 with that precondition, specs/c02.py)")
        raises = {"InvalidNumberOfElementsError": lambda s: s.capacity < 1,
                  "InvalidElementTypeError": lambda s: AND(s.capacity >= 1, is_service(s.element_type))}

    if extra:
        _C.raises = dict(_C.raises, **extra)
    _C.__name__ = "_ArrayIface" + q.split(".")[-1]
    contract(q + ".__init__", props=P)(_C)


_array_iface(FIXED)
_array_iface(VARIABLE, {"InvalidBitLengthError": lambda s: AND(NOT(is_service(s.element_type)), s.capacity >= 2 ** 64)})

_ELEM = ObjOf(SERIALIZABLE)
_O = X.OpaqueK


def _array_visitor(name, children_kinds, elem_idx, len_idx, adjust, array_cls):
    class _C:
        """`T[n]`, `T[<=n]`, `T[<n]`: the element type is whatever type expression precedes the bracket - possibly a
        reference to a service type; only InvalidDefinitionError subclasses may leave."""
        params = dict(_n=_O, children=X.TupleOf(*children_kinds))
        returns = ObjOf(array_cls, exact=True)
        raises = {
            "InvalidOperandError": lambda s: AND(E.is_rat(s.children[len_idx]), lambda: NOT(E.IS_INT(E.rv(s.children[len_idx])))),
            "InvalidNumberOfElementsError": lambda s: AND(_cap_ok(s.children[len_idx]),
                                                          lambda: E.rv(s.children[len_idx]) + adjust < 1),
            "InvalidElementTypeError": lambda s: AND(_cap_ok(s.children[len_idx]),
                                                     lambda: E.rv(s.children[len_idx]) + adjust >= 1,
                                                     is_service(s.children[elem_idx])),
            "InvalidBitLengthError": None,
            "InvalidDefinitionError": lambda s: NOT(E.is_rat(s.children[len_idx])),
        }

    _C.__name__ = "_Visit" + name
    contract(PTP + name, props=P)(_C)


def _cap_ok(ex):
    return AND(E.is_rat(ex), lambda: E.IS_INT(E.rv(ex)))


_array_visitor("visit_type_array_fixed", [_ELEM, _O, _O, _O, ObjOf(ANY), _O, _O], 0, 4, 0, FIXED)
_array_visitor("visit_type_array_variable_inclusive", [_ELEM, _O, _O, _O, _O, _O, ObjOf(ANY), _O, _O], 0, 6, 0, VARIABLE)
_array_visitor("visit_type_array_variable_exclusive", [_ELEM, _O, _O, _O, _O, _O, ObjOf(ANY), _O, _O], 0, 6, -1, VARIABLE)


# ------------------------------------------------------------------------------------------------ fields: aggregation check
def _register_service_aggregation():
    """`ServiceType._check_aggregation` exists only in a tree with the fix; on a tree without it the defect is reported by
    the whole_text check (field of a service type -> InternalError(TypeError)) and by CompositeType.extent/_attribute."""
    from pyvc.frontend import load_repo

    q = SERVICE + "._check_aggregation"
    if q not in load_repo().functions:
        return False

    @contract(q, props=P)
    class _ServiceCheckAggregation:
        """A service type is not a valid member of any aggregate: CompositeType.__init__ turns the failure into an
        AggregationError before the layout of the aggregate is computed."""
        params = dict(aggregate=ObjOf(SERIALIZABLE))

        def post(s):
            return {"always-a-failure": NOT(s.result is None) if not smt() else _not_none(s.result)}

    return True


def _not_none(r):
    from pyvc.values import OptV

    if r is None:
        return False
    if isinstance(r, OptV):
        return NOT(r.is_none)
    return True


SERVICE_AGGREGATION_CHECKED = _register_service_aggregation()
