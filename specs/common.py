"""
Class specifications shared by several properties: field kinds (how the real attributes assigned in `__init__` are
represented), class invariants (established by the constructors - proved under C02/C05 - and assumed for receivers and
arguments elsewhere), and the accessors that are inlined (their body is their own strongest contract).
"""
from pyvc.spec import class_spec, contract, inline_ok
from pyvc.values import Int, Bool, Str, Real, IntSet, Opt, Rec, SeqOf, ObjOf, EnumOf, Frac
from pyvc.speclib import AND, OR, NOT, IMPLIES, IFF, ITE, EQ, IS_NONE, VAL, ISINST, smt

VersionK = Rec("Version", major=Int, minor=Int)

COMPOSITE = "pydsdl._serializable._composite.CompositeType"
SERVICE = "pydsdl._serializable._composite.ServiceType"
DELIMITED = "pydsdl._serializable._composite.DelimitedType"
SERIALIZABLE = "pydsdl._serializable._serializable.SerializableType"


def major(t):
    return t.version.major


def minor(t):
    return t.version.minor


@class_spec(SERIALIZABLE)
class _SerializableSpec:
    fields = {}


@class_spec(COMPOSITE)
class _CompositeSpec:
    fields = dict(
        _name=Str,
        _version=VersionK,
        _deprecated=Bool,
        _fixed_port_id=Opt(Int),
        _source_file_path=Str,  # a pathlib.Path; only passed around and compared
        _has_parent_service=Bool,
        _doc=Str,
    )

    def invariant(self):
        # established by CompositeType.__init__ (version check, port-ID check); see specs/c05
        return {
            "version-range": AND(0 <= self._version.major, self._version.major <= 255,
                                 0 <= self._version.minor, self._version.minor <= 255,
                                 self._version.major + self._version.minor > 0),
            "port-id-range": OR(IS_NONE(self._fixed_port_id), 0 <= VAL(self._fixed_port_id)),
        }


@class_spec(SERVICE)
class _ServiceSpec:
    fields = dict(_request_type=ObjOf(COMPOSITE), _response_type=ObjOf(COMPOSITE))

    def invariant(self):
        rq, rs = self._request_type, self._response_type
        return {
            # ServiceType.__init__ raises ValueError unless these hold ("consistent")
            "parts-not-services": AND(NOT(ISINST(rq, "ServiceType")), NOT(ISINST(rs, "ServiceType"))),
            "parts-version": AND(EQ(rq._version, self._version), EQ(rs._version, self._version)),
            "parts-no-port-id": AND(IS_NONE(rq._fixed_port_id), IS_NONE(rs._fixed_port_id)),
            "parts-have-parent": AND(rq._has_parent_service, rs._has_parent_service),
            "parts-deprecated": AND(EQ(rq._deprecated, self._deprecated), EQ(rs._deprecated, self._deprecated)),
            # ASSUMED (not enforced by ServiceType.__init__ itself): the only construction site in the repository,
            # DataTypeBuilder.finalize, names the parts <service>.Request / <service>.Response; hence two services
            # with the same full name have request (response) parts with the same full name.
            "parts-name": AND(EQ(rq._name, self._name + ".Request"), EQ(rs._name, self._name + ".Response")),
        }


inline_ok(
    COMPOSITE + ".full_name",
    COMPOSITE + ".version",
    COMPOSITE + ".fixed_port_id",
    COMPOSITE + ".has_fixed_port_id",
    COMPOSITE + ".source_file_path",
    COMPOSITE + ".deprecated",
    COMPOSITE + ".has_parent_service",
    COMPOSITE + ".doc",
    SERVICE + ".request_type",
    SERVICE + ".response_type",
)
