"""
Class specifications shared by several properties: field kinds (how the real attributes assigned in `__init__` are
represented), class invariants (established by the constructors - proved under C02/C05 - and assumed for receivers and
arguments elsewhere), and the accessors that are inlined (their body is their own strongest contract).
"""
from pyvc.spec import class_spec, contract, inline_ok
from pyvc.values import Int, Bool, Str, Real, IntSet, Opt, Rec, SeqOf, ObjOf, EnumOf, Frac
from pyvc.speclib import AND, OR, NOT, IMPLIES, IFF, ITE, EQ, IS_NONE, VAL, ISINST, smt

VersionK = Rec("Version", major=Int, minor=Int)

COMPOSITE = "pydsdl._serializable._composite.CompositeType"
SERVICE = "pydsdl._serializable._composite.ServiceType"
DELIMITED = "pydsdl._serializable._composite.DelimitedType"
SERIALIZABLE = "pydsdl._serializable._serializable.SerializableType"


def major(t):
    return t.version.major


def minor(t):
    return t.version.minor


@class_spec(SERIALIZABLE)
class _SerializableSpec:
    fields = {}


@class_spec(COMPOSITE)
class _CompositeSpec:
    fields = dict(
        _name=Str,
        _version=VersionK,
        _deprecated=Bool,
        _fixed_port_id=Opt(Int),
        _source_file_path=Str,  # a pathlib.Path; only passed around and compared
        _has_parent_service=Bool,
        _doc=Str,
        _attributes=SeqOf(ObjOf("pydsdl._serializable._attribute.Attribute")),
    )

    def invariant(self):
        # established by CompositeType.__init__ (version check, port-ID check); see specs/c05
        return {
            "version-range": AND(0 <= self._version.major, self._version.major <= 255,
                                 0 <= self._version.minor, self._version.minor <= 255,
                                 self._version.major + self._version.minor > 0),
            "port-id-range": OR(IS_NONE(self._fixed_port_id), 0 <= VAL(self._fixed_port_id)),
        }


@class_spec(SERVICE)
class _ServiceSpec:
    fields = dict(_request_type=ObjOf(COMPOSITE), _response_type=ObjOf(COMPOSITE))

    def invariant(self):
        rq, rs = self._request_type, self._response_type
        return {
            # ServiceType.__init__ raises ValueError unless these hold ("consistent"): PROVED by its contract in
            # specs/c05.py (`_ServiceInit`: ValueError iff not SERVICE_PARTS_CONSISTENT; inv# obligations for the five
            # clauses below)
            "parts-not-services": AND(NOT(ISINST(rq, "ServiceType")), NOT(ISINST(rs, "ServiceType"))),
            "parts-version": AND(EQ(rq._version, self._version), EQ(rs._version, self._version)),
            "parts-no-port-id": AND(IS_NONE(rq._fixed_port_id), IS_NONE(rs._fixed_port_id)),
            "parts-have-parent": AND(rq._has_parent_service, rs._has_parent_service),
            "parts-deprecated": AND(EQ(rq._deprecated, self._deprecated), EQ(rs._deprecated, self._deprecated)),
            # ASSUMED (NOT established by ServiceType.__init__, which only checks that the full names of both parts start
            # with the request's full namespace and takes that namespace as its own name - `inv_exempt` in `_ServiceInit`):
            # the only construction site in the repository, DataTypeBuilder.finalize, names the parts
            # <service>.Request / <service>.Response; hence two services with the same full name have request
            # (response) parts with the same full name.  (finalize's contract cannot state it either: the constructor
            # contracts used there do not say which name is stored.)
            "parts-name": AND(EQ(rq._name, self._name + ".Request"), EQ(rs._name, self._name + ".Response")),
        }


inline_ok(
    COMPOSITE + ".full_name",
    COMPOSITE + ".version",
    COMPOSITE + ".fixed_port_id",
    COMPOSITE + ".has_fixed_port_id",
    COMPOSITE + ".source_file_path",
    COMPOSITE + ".deprecated",
    COMPOSITE + ".has_parent_service",
    COMPOSITE + ".doc",
    SERVICE + ".request_type",
    SERVICE + ".response_type",
)


# ------------------------------------------------------------------------------------------------ primitive types
PRIMITIVE = "pydsdl._serializable._primitive.PrimitiveType"
BOOLEAN_T = "pydsdl._serializable._primitive.BooleanType"
ARITHMETIC_T = "pydsdl._serializable._primitive.ArithmeticType"
INTEGER_T = "pydsdl._serializable._primitive.IntegerType"
SIGNED_T = "pydsdl._serializable._primitive.SignedIntegerType"
UNSIGNED_T = "pydsdl._serializable._primitive.UnsignedIntegerType"
BYTE_T = "pydsdl._serializable._primitive.ByteType"
UTF8_T = "pydsdl._serializable._primitive.UTF8Type"
FLOAT_T = "pydsdl._serializable._primitive.FloatType"
VOID_T = "pydsdl._serializable._void.VoidType"
CASTMODE = "pydsdl._serializable._primitive.PrimitiveType.CastMode"

SATURATED, TRUNCATED = 0, 1  # ordinals of PrimitiveType.CastMode members (declaration order)


def cast_mode_ord(t):
    """Ordinal of the cast mode (0 saturated, 1 truncated)."""
    cm = t._cast_mode
    if smt():
        return cm.term
    return cm.value


import fractions as _fr

MAG16 = _fr.Fraction(2 ** 15) * (2 - _fr.Fraction(1, 2 ** 10))
MAG32 = _fr.Fraction(2 ** 127) * (2 - _fr.Fraction(1, 2 ** 23))
MAG64 = _fr.Fraction(2 ** 1023) * (2 - _fr.Fraction(1, 2 ** 52))


def _rv(fr):
    import z3

    return z3.RealVal(str(fr.numerator)) / z3.RealVal(str(fr.denominator))


def MAG(n):
    """Largest finite value of IEEE 754 binary16/32/64: (2 - 2**-p) * 2**emax (closed terms, exact)."""
    if smt():
        import z3
        from pyvc.values import Int as _I

        nt = _I.unwrap(n)
        return z3.If(nt == 16, _rv(MAG16), z3.If(nt == 32, _rv(MAG32), _rv(MAG64)))
    return {16: MAG16, 32: MAG32, 64: MAG64}[n]


def FRAC(x):
    """Numeric value of a Fraction-valued field / expression as a spec number."""
    if smt():
        from pyvc.values import FractionV, Real as _R

        return x.term if isinstance(x, FractionV) else _R.unwrap(x)
    return x


def POW2(n):
    if smt():
        import z3
        from pyvc import speclib as _sl
        from pyvc.values import Int as _I

        if isinstance(n, int):
            return z3.IntVal(2 ** n)
        return _sl.CTX.engine.lib.pow2(_I.unwrap(n))
    return 2 ** n


@class_spec(PRIMITIVE)
class _PrimitiveSpec:
    fields = dict(_bit_length=Int, _cast_mode=EnumOf(CASTMODE), _standard_bit_length=Bool)

    def invariant(self):
        return {"bit-length-range": AND(1 <= self._bit_length, self._bit_length <= 64)}


@class_spec(BOOLEAN_T)
class _BooleanTSpec:
    def invariant(self):
        return {"bool-is-one-bit": AND(self._bit_length == 1, cast_mode_ord(self) == SATURATED)}


@class_spec(SIGNED_T)
class _SignedSpec:
    def invariant(self):
        return {"signed": AND(self._bit_length >= 2, cast_mode_ord(self) == SATURATED)}


@class_spec(BYTE_T)
class _ByteSpec:
    def invariant(self):
        return {"byte": AND(self._bit_length == 8, cast_mode_ord(self) == TRUNCATED)}


@class_spec(UTF8_T)
class _Utf8Spec:
    def invariant(self):
        return {"utf8": AND(self._bit_length == 8, cast_mode_ord(self) == TRUNCATED)}


@class_spec(FLOAT_T)
class _FloatSpec:
    fields = dict(_magnitude=Frac)

    def invariant(self):
        return {"float-width": OR(self._bit_length == 16, self._bit_length == 32, self._bit_length == 64),
                "magnitude": FRAC(self._magnitude) == MAG(self._bit_length)}


@class_spec(VOID_T)
class _VoidSpec:
    fields = dict(_bit_length=Int)

    def invariant(self):
        return {"bit-length-range": AND(1 <= self._bit_length, self._bit_length <= 64)}


inline_ok(
    PRIMITIVE + ".bit_length", PRIMITIVE + ".cast_mode", PRIMITIVE + ".standard_bit_length",
    PRIMITIVE + ".alignment_requirement", PRIMITIVE + ".deprecated",
    VOID_T + ".bit_length", VOID_T + ".alignment_requirement", VOID_T + ".deprecated",
)

# ------------------------------------------------------------------------------------------------ expression values
ANY = "pydsdl._expression._any.Any"
PRIMITIVE_X = "pydsdl._expression._primitive.Primitive"
BOOLEAN_X = "pydsdl._expression._primitive.Boolean"
RATIONAL_X = "pydsdl._expression._primitive.Rational"
STRING_X = "pydsdl._expression._primitive.String"
SET_X = "pydsdl._expression._container.Set"


@class_spec(BOOLEAN_X)
class _BooleanXSpec:
    fields = dict(_value=Bool)


@class_spec(RATIONAL_X)
class _RationalXSpec:
    fields = dict(_value=Frac)


@class_spec(STRING_X)
class _StringXSpec:
    fields = dict(_value=Str)


inline_ok(
    BOOLEAN_X + ".native_value", RATIONAL_X + ".native_value", STRING_X + ".native_value",
    RATIONAL_X + ".is_integer", BOOLEAN_X + ".__init__", RATIONAL_X + ".__init__", STRING_X + ".__init__",
    why="trivial accessor / constructor of an expression value: inlined (its body is its own strongest contract)",
)

# ------------------------------------------------------------------------------------------------ attributes
ATTRIBUTE = "pydsdl._serializable._attribute.Attribute"
FIELD = "pydsdl._serializable._attribute.Field"
PADDING = "pydsdl._serializable._attribute.PaddingField"
CONSTANT = "pydsdl._serializable._attribute.Constant"


@class_spec(ATTRIBUTE)
class _AttributeSpec:
    fields = dict(_data_type=ObjOf(SERIALIZABLE), _name=Str, _doc=Str)


@class_spec(CONSTANT)
class _ConstantSpec:
    fields = dict(_value=ObjOf(ANY))


inline_ok(ATTRIBUTE + ".data_type", ATTRIBUTE + ".name", ATTRIBUTE + ".doc", CONSTANT + ".value",
          SERIALIZABLE + ".__init__")


@contract("pydsdl._serializable._name.check_name", props=["C05"])
class _CheckNameAssumed:
    """Placeholder until C05 states the full contract: the name check may reject."""
    params = dict(name=Str)
    raises = {"InvalidNameError": None}
    verify = False
    assumed = "contract of check_name is the subject of C05"



# ------------------------------------------------------------------------------------------------ layout interface
def BLS_IFACE_RAISES(s):
    """The exceptional clause of THE interface contract of SerializableType.bit_length_set (specs/c02.py `_BlsIface`, the one
    backed by the proofs of all overrides): TypeError iff the receiver is a ServiceType.  specs/c13_types.py and
    specs/c18.py restate projections of that contract through this function."""
    return ISINST(s.self, "ServiceType")


# ------------------------------------------------------------------------------------------------ effects: no hidden state
def no_hidden_state_check(module_names, what):
    """Builds an EXTRA_CHECKS entry: effect obligations decided on the ASTs of the named repository modules (complete for
    what they state, re-derived from the current sources on every run).  Every function / method defined there keeps no
    state between calls other than fields of the objects it is given:
      no-decorator     its `def` carries no argument-keyed cache (functools.lru_cache, functools.cache, anything named
                       *memoize*): such a decorator makes results depend on earlier calls and on `==` / `hash` of the
                       arguments instead of the argument objects, and the engine, which inlines helper bodies, would not see
                       it.  Parameterless functions are exempt (a cached constant); structural decorators and decorators
                       defined in the same module are ordinary code; other foreign decorators are listed, not judged.
      no-module-state  no `global` / `nonlocal` statement, no store into (attribute, item, augmented assignment) and no
                       mutating method call (append, add, update, setdefault, pop, ...) on a module-level name."""
    STRUCTURAL = {"property", "staticmethod", "classmethod", "abc.abstractmethod", "abstractmethod", "typing.overload",
                  "typing.no_type_check"}
    MUTATORS = {"append", "add", "update", "setdefault", "pop", "popitem", "clear", "extend", "insert", "remove", "discard",
                "__setitem__", "__delitem__", "sort", "reverse", "cache_clear"}

    def check(eng, tier, seed):
        import ast
        import re

        obs = []
        for mn in module_names:
            mod = eng.repo.modules.get(mn)
            short_m = mn.replace("pydsdl.", "")
            if mod is None:
                obs.append({"name": "%s/effect#module-found" % short_m, "ok": False, "function": mn, "detail": "module not found"})
                continue
            top_level = set(mod.assigns) | set(mod.functions) | set(mod.classes)
            defined_here = {n.name for n in ast.walk(mod.tree) if isinstance(n, (ast.ClassDef, ast.FunctionDef))}
            for q in sorted(eng.repo.functions):
                fi = eng.repo.functions[q]
                if fi.module is not mod or fi.outer is not None or not isinstance(fi.node, ast.FunctionDef) \
                        or fi.name.startswith("_unittest"):
                    continue
                short = q.replace("pydsdl.", "")
                nparams = len(fi.node.args.args) + len(fi.node.args.kwonlyargs) + len(fi.node.args.posonlyargs) \
                    + (1 if fi.node.args.vararg else 0) + (1 if fi.node.args.kwarg else 0)

                def own(d):
                    root = d.split("(")[0].split(".")[0]
                    return root in defined_here

                foreign = [d for d in fi.decorators if d not in STRUCTURAL and not d.endswith(".setter") and not own(d)]
                # what makes a result depend on earlier calls is a cache keyed by the ARGUMENTS (== / hash of the arguments
                # instead of the argument objects): functools.lru_cache / functools.cache and anything named like them;
                # any other foreign decorator is not judged here (listed; an assumption, not a violation)
                extra = [d for d in foreign if re.search(r"(^|[._])(lru_cache|cache|memoi[sz]e[d]?)$", d.split("(")[0])]
                if nparams == 0:
                    extra = []
                obs.append({"name": "%s/effect#no-decorator" % short, "ok": not extra, "function": q,
                            "detail": ("decorated with %s" % extra) if extra else
                                      (("foreign decorators assumed stateless: %s" % foreign) if foreign and nparams else "")})
                bad = []
                local = {a.arg for a in fi.node.args.args + fi.node.args.kwonlyargs + fi.node.args.posonlyargs}
                for node in ast.walk(fi.node):
                    if isinstance(node, ast.Name) and isinstance(node.ctx, ast.Store):
                        local.add(node.id)

                def module_name(e):
                    return isinstance(e, ast.Name) and e.id not in local and e.id in top_level

                for node in ast.walk(fi.node):
                    if isinstance(node, (ast.Global, ast.Nonlocal)) and node is not fi.node:
                        bad.append("%s statement" % type(node).__name__.lower())
                    if isinstance(node, (ast.Attribute, ast.Subscript)) and isinstance(node.ctx, (ast.Store, ast.Del)) \
                            and module_name(node.value):
                        bad.append("stores into module-level `%s`" % node.value.id)
                    if isinstance(node, ast.Call) and isinstance(node.func, ast.Attribute) and node.func.attr in MUTATORS \
                            and module_name(node.func.value):
                        bad.append("calls %s() on module-level `%s`" % (node.func.attr, node.func.value.id))
                obs.append({"name": "%s/effect#no-module-state" % short, "ok": not bad, "function": q,
                            "detail": "; ".join(sorted(set(bad)))})
        return {"check": "effects(no hidden state)", "name": "%s keep no state between calls (AST effects)" % what,
                "obligations": obs}

    check.__name__ = "no_hidden_state"
    return check
