"""
C09 - Versioned references resolve to exactly the named definition or fail cleanly.

Oracle (from the property statement): a reference `name.M.m` made inside definition R denotes the *full name*
`name` if it contains a dot, else `<namespace of R>.name`; a lookup definition *matches* when its full name equals the
reference ignoring letter case and its version is exactly (M, m).  Resolution reads the unique match if its name is
spelled exactly like the reference; no match -> UndefinedDataTypeError, several -> DataTypeCollisionError, a single
match spelled with different letter case -> DataTypeNameCollisionError.

Call tagging.  `READ(d, L, V, a)` names "the value returned by the call d.read(L, V, <handler>, a)".  It is an
uninterpreted function in the SMT reading, so `result == READ(d, L, V, a)` can only be proved when the call was made on
exactly that receiver with exactly those arguments (there is no other way to obtain such a value); in the native reading
the harness' stub definitions return a record of the receiver and the arguments.
"""
import z3
from pyvc.spec import contract, class_spec, loop_invariant, inline_ok
from pyvc.values import Int, Bool, Str, Opt, SeqOf, ObjOf, Const, Opaque, Obj, SymSeq, RefSort
from pyvc.speclib import (AND, OR, NOT, IMPLIES, IFF, ITE, EQ, IS_NONE, VAL, ISINST, FORALL_IDX, EXISTS_IDX, AT, LEN, AS,
                          FILTER, lower, smt)
from pyvc import speclib
from .common import COMPOSITE, VersionK

P = ["C09"]
DSDLFILE = "pydsdl._dsdl.DSDLFile"
READABLE = "pydsdl._dsdl.ReadableDSDLFile"
VISITOR = "pydsdl._dsdl.DefinitionVisitor"
DSDLDEF = "pydsdl._dsdl_definition.DSDLDefinition"
BUILDER = "pydsdl._data_type_builder.DataTypeBuilder"
PARSER = "pydsdl._parser."
HANDLER = Const(Opaque("print_output_handler (a callable; only passed on)"))


# ------------------------------------------------------------------------------------------------ ghost vocabulary
def NAME(d):
    """full name of a definition (DSDLFile.full_name)"""
    if smt():
        return AS(d, DSDLDEF)._name
    return d.full_name


def VERSION(d):
    if smt():
        return AS(d, DSDLDEF)._version
    return d.version


def _ghost(name, sort):
    return speclib.CTX.engine.uf("ghost!" + name, RefSort, sort)


def NAMESPACE(d):
    """full namespace of a definition: its full name without the last component (DSDLFile.full_namespace)"""
    if smt():
        return _ghost("full_namespace", z3.StringSort())(d.ref)
    return d.full_namespace


def ROOT_NS(d):
    if smt():
        return _ghost("root_namespace", z3.StringSort())(d.ref)
    return d.root_namespace


def HAS_DOT(s):
    if smt():
        return z3.Contains(Str.unwrap(s), z3.StringVal("."))
    return "." in s


def CONCAT(*parts):
    if smt():
        return z3.Concat(*[Str.unwrap(p) for p in parts])
    return "".join(parts)


def SAME_OBJ(a, b):
    if smt():
        return a.ref == b.ref
    return a is b


def SAME_SEQ(a, b):
    """the same elements in the same order (list(x) copies)"""
    if smt():
        if isinstance(a, SymSeq) and isinstance(b, SymSeq):
            i = z3.FreshConst(z3.IntSort(), "i")
            return z3.And(a.length == b.length,
                          z3.ForAll([i], z3.Implies(z3.And(0 <= i, i < a.length), z3.Select(a.arr, i) == z3.Select(b.arr, i)),
                                    patterns=[z3.Select(a.arr, i)]))
        raise TypeError("SAME_SEQ of %r, %r" % (a, b))
    return len(a) == len(b) and all(x is y for x, y in zip(a, b))


class ReadTag:
    """Native reading of READ: what a stub definition's `read` returns."""

    def __init__(self, d, lookup, visitors, allow):
        self.d, self.lookup, self.visitors, self.allow = d, list(lookup), list(visitors), allow

    def __eq__(self, other):
        return (isinstance(other, ReadTag) and self.d is other.d and self.allow == other.allow
                and len(self.lookup) == len(other.lookup) and all(x is y for x, y in zip(self.lookup, other.lookup))
                and len(self.visitors) == len(other.visitors) and all(x is y for x, y in zip(self.visitors, other.visitors)))

    __hash__ = None


def READ(d, lookup, visitors, allow):
    if smt():
        e = speclib.CTX.engine
        f = e.uf("ghost!read", RefSort, lookup.arr.sort(), z3.IntSort(), visitors.arr.sort(), z3.IntSort(), z3.BoolSort(),
                 RefSort)
        return f(d.ref, lookup.arr, lookup.length, visitors.arr, visitors.length, Bool.unwrap(allow))
    return ReadTag(d, lookup, visitors, allow)


def IS_READ(result, d, lookup, visitors, allow):
    if smt():
        return result.ref == READ(d, lookup, visitors, allow)
    return result == READ(d, lookup, visitors, allow)


def DEF_EQ(a, b):
    """`==` between definitions: same full name and same version (DSDLDefinition.__eq__)"""
    return AND(EQ(NAME(a), NAME(b)), EQ(VERSION(a), VERSION(b)))


# ------------------------------------------------------------------------------------------------ class specifications
@class_spec(DSDLFILE)
class _DSDLFileSpec:
    fields = {}
    eq = staticmethod(lambda a, b: DEF_EQ(a, b))


@class_spec(READABLE)
class _ReadableSpec:
    fields = {}


@class_spec(VISITOR)
class _VisitorSpec:
    fields = {}


@class_spec(DSDLDEF)
class _DSDLDefinitionSpec:
    fields = dict(
        _file_path=Str,             # pathlib.Path values are only passed around and compared
        _root_namespace_path=Str,
        _text=Opt(Str),
        _fixed_port_id=Opt(Int),
        _version=VersionK,
        _name=Str,
        _cached_type=Opt(ObjOf(COMPOSITE)),
    )
    mutable = ["_text", "_cached_type"]


@class_spec(BUILDER)
class _BuilderSpec:
    fields = dict(
        _definition=ObjOf(READABLE),
        _lookup_definitions=SeqOf(ObjOf(READABLE)),
        _definition_visitors=SeqOf(ObjOf(VISITOR)),
        _print_output_handler=HANDLER,
        _allow_unregulated_fixed_port_id=Bool,
        _is_deprecated=Bool,
    )


inline_ok(
    DSDLDEF + ".full_name", DSDLDEF + ".version", DSDLDEF + ".file_path", DSDLDEF + ".fixed_port_id",
    DSDLDEF + ".has_fixed_port_id", DSDLDEF + ".composite_type", DSDLDEF + ".root_namespace_path",
)


# ------------------------------------------------------------------------------------------------ interface: DSDLFile
class _Iface:
    verify = False
    assumed = ("interface contract of an abstract property of DSDLFile: a pure function of the (immutable) definition "
               "object; DSDLDefinition implements the path-derived ones by returning the fields set in __init__")


def _components(d):
    if smt():
        e = speclib.CTX.engine
        arr = e.uf("ghost!components!arr", RefSort, z3.ArraySort(z3.IntSort(), z3.StringSort()))(d.ref)
        n = e.uf("ghost!components!len", RefSort, z3.IntSort())(d.ref)
        return SymSeq(arr, n, Str)
    return d.name_components


def _path_field(name):
    def value(s):
        return getattr(AS(s.self, DSDLDEF), name) if smt() else None
    return staticmethod(value)


@contract(DSDLFILE + ".full_name", props=["C09", "C10", "C19"])
class _IfFullName(_Iface):
    returns = Str
    value = staticmethod(lambda s: NAME(s.self))


@contract(DSDLFILE + ".version", props=["C09", "C10", "C19"])
class _IfVersion(_Iface):
    returns = VersionK
    value = staticmethod(lambda s: VERSION(s.self))


@contract(DSDLFILE + ".full_namespace", props=["C09", "C19"])
class _IfNamespace(_Iface):
    returns = Str
    value = staticmethod(lambda s: NAMESPACE(s.self))


@contract(DSDLFILE + ".root_namespace", props=["C09", "C19"])
class _IfRootNs(_Iface):
    returns = Str
    value = staticmethod(lambda s: ROOT_NS(s.self))


@contract(DSDLFILE + ".name_components", props=["C09", "C19"])
class _IfComponents(_Iface):
    returns = SeqOf(Str)
    value = staticmethod(lambda s: _components(s.self))

    def post(s):
        return {"non-empty": LEN(s.result) >= 1}


@contract(DSDLFILE + ".file_path", props=["C09", "C10", "C19"])
class _IfFilePath(_Iface):
    returns = Str
    value = _path_field("_file_path")


@contract(DSDLFILE + ".root_namespace_path", props=["C09", "C19"])
class _IfRootPath(_Iface):
    returns = Str
    value = _path_field("_root_namespace_path")


@contract(VISITOR + ".on_definition", props=["C09", "C19"])
class _IfOnDefinition:
    """Interface contract of DefinitionVisitor.on_definition: returns normally (the only implementation,
    _namespace_reader._read_definitions._Callback, records the dependency)."""
    params = dict(target_dsdl_file=ObjOf(DSDLFILE), dependency_dsdl_file=ObjOf(READABLE))
    verify = False
    assumed = "interface contract: a visitor returns normally"


@contract(READABLE + ".read", props=["C09", "C10", "C19"])
class _IfRead:
    """Interface contract of ReadableDSDLFile.read: the result is the value of this call (call tagging, see the module
    docstring); any pydsdl.Error may escape."""
    params = dict(lookup_definitions=SeqOf(ObjOf(READABLE)), definition_visitors=SeqOf(ObjOf(VISITOR)),
                  print_output_handler=HANDLER, allow_unregulated_fixed_port_id=Bool, strict=Bool)
    returns = ObjOf(COMPOSITE)
    may_raise = ["Error"]
    verify = False
    assumed = ("interface contract of the abstract method; DSDLDefinition.read is verified separately; exceptions of a "
               "nested read are abstracted to the base class pydsdl.Error")

    def post(s):
        return {"tag": IS_READ(s.result, s.self, s.lookup_definitions, s.definition_visitors,
                               s.allow_unregulated_fixed_port_id)}

    # termination measure of the mutual recursion read -> parse -> resolve_versioned_data_type -> read
    decreases = staticmethod(lambda s: (LEN(FILTER(s.lookup_definitions, lambda d: NOT(DEF_EQ(d, s.self)))), 2))


# ------------------------------------------------------------------------------------------------ C09-1 resolution
def reference_full_name(builder, name):
    """Statement: a name without dots is taken relative to the referring definition's own namespace."""
    return ITE(HAS_DOT(name), name, CONCAT(NAMESPACE(builder._definition), ".", name))


def matches(d, full, version):
    """case-insensitive name match with exactly the requested version"""
    return AND(EQ(lower(NAME(d)), lower(full)), EQ(VERSION(d), version))


def n_matches_is_0(L, full, version):
    return NOT(EXISTS_IDX(L, lambda i, d: matches(d, full, version)))


def n_matches_gt_1(L, full, version):
    return EXISTS_IDX(L, lambda i, a: AND(matches(a, full, version), EXISTS_IDX(
        L, lambda j, b: matches(b, full, version), lo=i + 1, name="j")))


@contract(BUILDER + ".resolve_versioned_data_type", props=P)
class _Resolve:
    params = dict(name=Str, version=VersionK)
    returns = ObjOf(COMPOSITE)
    may_raise = ["Error"]  # only from the nested read (interface contract of ReadableDSDLFile.read)

    @staticmethod
    def _full(s):
        return reference_full_name(s.self, s.name)

    raises = {
        "UndefinedDataTypeError": lambda s: n_matches_is_0(s.self._lookup_definitions, _Resolve._full(s), s.version),
        # a match that differs from the reference by letter case only; with several matches either collision class
        # is a clean failure (DataTypeNameCollisionError is a DataTypeCollisionError)
        "DataTypeNameCollisionError": lambda s: OR(
            n_matches_gt_1(s.self._lookup_definitions, _Resolve._full(s), s.version),
            EXISTS_IDX(s.self._lookup_definitions, lambda i, d: AND(matches(d, _Resolve._full(s), s.version),
                                                                    NOT(EQ(NAME(d), _Resolve._full(s)))))),
        "DataTypeCollisionError": lambda s: n_matches_gt_1(s.self._lookup_definitions, _Resolve._full(s), s.version),
    }

    def post(s):
        L = s.self._lookup_definitions
        full = _Resolve._full(s)
        return {
            # the definition handed to .read: exactly the named one, an element of the lookup list, read with the
            # builder's own lookup list / visitors / flag
            "reads-the-named-definition": EXISTS_IDX(L, lambda i, d: AND(
                EQ(NAME(d), full), EQ(VERSION(d), s.version),
                IS_READ(s.result, d, L, s.self._definition_visitors, s.self._allow_unregulated_fixed_port_id))),
        }

    decreases = staticmethod(lambda s: (LEN(s.self._lookup_definitions), 0))


# ------------------------------------------------------------------------------------------------ native harness
from pyvc.native import NativeSuite

NATIVE = NativeSuite()
LEVEL = "proof"


def _stub_classes():
    import pydsdl
    from pydsdl import _dsdl
    from pydsdl._serializable import Version

    class StubDefinition(_dsdl.ReadableDSDLFile):
        """A ReadableDSDLFile whose identity data is given directly (no file system)."""

        def __init__(self, full_name, version, fail=False):
            self._n, self._v, self._fail = full_name, Version(*version), fail
            self.reads = []

        composite_type = property(lambda self: None)
        full_name = property(lambda self: self._n)
        name_components = property(lambda self: self._n.split("."))
        short_name = property(lambda self: self._n.split(".")[-1])
        full_namespace = property(lambda self: ".".join(self._n.split(".")[:-1]))
        root_namespace = property(lambda self: self._n.split(".")[0])
        text = property(lambda self: "")
        version = property(lambda self: self._v)
        fixed_port_id = property(lambda self: None)
        has_fixed_port_id = property(lambda self: False)
        file_path = property(lambda self: __import__("pathlib").Path("/stub") / (self._n + ".%d.%d.dsdl" % self._v))
        root_namespace_path = property(lambda self: __import__("pathlib").Path("/stub"))

        def read(self, lookup_definitions, definition_visitors, print_output_handler, allow_unregulated_fixed_port_id,
                 *, strict=False):
            if self._fail:
                raise pydsdl.InvalidDefinitionError("nested failure")
            return ReadTag(self, lookup_definitions, definition_visitors, allow_unregulated_fixed_port_id)

        def __eq__(self, other):
            return isinstance(other, StubDefinition) and self._n == other._n and self._v == other._v

        def __hash__(self):
            return hash((self._n, self._v))

    class StubVisitor(_dsdl.DefinitionVisitor):
        def __init__(self):
            self.seen = []

        def on_definition(self, target_dsdl_file, dependency_dsdl_file):
            self.seen.append((target_dsdl_file, dependency_dsdl_file))

    return StubDefinition, StubVisitor


_NAMES = ["ns.A", "ns.a", "ns.B", "ns.sub.A", "NS.A", "other.A", "ns.K", "ns.K"]


def _gen_resolve(rng, i):
    n = rng.choice([0, 1, 2, 2, 3, 4])
    lookup = [[rng.choice(_NAMES), [rng.choice([0, 1, 1, 2]), rng.choice([0, 1])], rng.random() < 0.1] for _ in range(n)]
    own = rng.choice(["ns.Self", "ns.sub.Self", "other.Self", "Top"])
    name = rng.choice(["A", "a", "B", "ns.A", "ns.a", "Ns.A", "ns.sub.A", "other.A", "K", "ns.C"])
    return {"own": own, "lookup": lookup, "name": name, "version": [rng.choice([0, 1, 1, 2]), rng.choice([0, 1])],
            "allow": rng.random() < 0.5, "visitors": rng.choice([0, 1, 2])}


def _build_resolve(desc):
    from pydsdl._data_type_builder import DataTypeBuilder
    from pydsdl._serializable import Version

    StubDefinition, StubVisitor = _stub_classes()
    own = StubDefinition(desc["own"], (1, 0))
    lookup = [StubDefinition(n, tuple(v), f) for n, v, f in desc["lookup"]]
    visitors = [StubVisitor() for _ in range(desc["visitors"])]
    b = DataTypeBuilder(own, lookup, visitors, lambda line, text: None, desc["allow"])
    version = Version(*desc["version"])
    return (lambda: b.resolve_versioned_data_type(desc["name"], version)), {"self": b, "name": desc["name"],
                                                                            "version": version}


NATIVE.add(BUILDER + ".resolve_versioned_data_type", _gen_resolve, _build_resolve)

NOT_COVERED = []
EXPLANATION = ""
ASSUMPTIONS = []
