"""
C09 - Versioned references resolve to exactly the named definition or fail cleanly.

Oracle (from the property statement): a reference `name.M.m` made inside definition R denotes the *full name*
`name` if it contains a dot, else `<namespace of R>.name`; a lookup definition *matches* when its full name equals the
reference ignoring letter case and its version is exactly (M, m).  Resolution reads the unique match if its name is
spelled exactly like the reference; no match -> UndefinedDataTypeError, several -> DataTypeCollisionError, a single
match spelled with different letter case -> DataTypeNameCollisionError.

Call tagging.  `READ(d, L, V, a)` names "the value returned by the call d.read(L, V, <handler>, a)".  It is an
uninterpreted function in the SMT reading, so `result == READ(d, L, V, a)` can only be proved when the call was made on
exactly that receiver with exactly those arguments (there is no other way to obtain such a value); in the native reading
the harness' stub definitions return a record of the receiver and the arguments.
"""
import z3
from pyvc.spec import contract, class_spec, loop_invariant, inline_ok
from pyvc.values import Int, Bool, Str, Opt, SeqOf, ObjOf, Const, Opaque, Obj, SymSeq, RefSort
from pyvc.speclib import (AND, OR, NOT, IMPLIES, IFF, ITE, EQ, IS_NONE, VAL, ISINST, FORALL_IDX, EXISTS_IDX, AT, LEN, AS,
                          FILTER, lower, smt)
from pyvc import speclib
from .common import COMPOSITE, VersionK
from pyvc import ext_expr as _ext  # exception objects carry _path / _line; Error.set_error_location_if_unknown is executed
from pyvc.spec import REG as _REG

if "pydsdl._error.Error" not in _REG.classes:
    @class_spec("pydsdl._error.Error")
    class _ErrorLocationSpec:
        fields = dict(_path=Opt(Str), _line=Opt(Int))

P = ["C09"]
DSDLFILE = "pydsdl._dsdl.DSDLFile"
READABLE = "pydsdl._dsdl.ReadableDSDLFile"
VISITOR = "pydsdl._dsdl.DefinitionVisitor"
DSDLDEF = "pydsdl._dsdl_definition.DSDLDefinition"
BUILDER = "pydsdl._data_type_builder.DataTypeBuilder"
PARSER = "pydsdl._parser."
HANDLER = Const(Opaque("print_output_handler (a callable; only passed on)"))


# ------------------------------------------------------------------------------------------------ ghost vocabulary
def NAME(d):
    """full name of a definition (DSDLFile.full_name)"""
    if smt():
        return AS(d, DSDLDEF)._name
    return d.full_name


def VERSION(d):
    if smt():
        return AS(d, DSDLDEF)._version
    return d.version


def _ghost(name, sort):
    return speclib.CTX.engine.uf("ghost!" + name, RefSort, sort)


def NAMESPACE(d):
    """full namespace of a definition: its full name without the last component - the shared function of the full name
    (specs/names.py) that C15 proves DSDLDefinition.full_namespace to compute"""
    if smt():
        from .names import NAMESPACE_OF

        return NAMESPACE_OF(NAME(d))
    return d.full_namespace


def ROOT_NS(d):
    """root namespace: the first component of the full name (specs/names.py; proved for DSDLDefinition under C15)"""
    if smt():
        from .names import ROOT_NAMESPACE_OF

        return ROOT_NAMESPACE_OF(NAME(d))
    return d.root_namespace


def HAS_DOT(s):
    if smt():
        return z3.Contains(Str.unwrap(s), z3.StringVal("."))
    return "." in s


def CONCAT(*parts):
    if smt():
        return z3.Concat(*[Str.unwrap(p) for p in parts])
    return "".join(parts)


def SAME_OBJ(a, b):
    """object identity (`is`); an Optional operand must be present"""
    if smt():
        from pyvc.values import OptV

        guards = []
        for x in (a, b):
            if isinstance(x, OptV):
                guards.append(NOT(IS_NONE(x)))
        a, b = (VAL(a) if isinstance(a, OptV) else a), (VAL(b) if isinstance(b, OptV) else b)
        if not isinstance(a, Obj) or not isinstance(b, Obj):
            return False
        return AND(*(guards + [a.ref == b.ref]))
    return a is b


def SAME_SEQ(a, b):
    """the same elements in the same order (list(x) copies)"""
    if smt():
        from pyvc.loops import mk_forall

        if isinstance(a, SymSeq) and isinstance(b, SymSeq):
            i = z3.FreshConst(z3.IntSort(), "i")
            return z3.And(a.length == b.length,
                          mk_forall([i], z3.Implies(z3.And(0 <= i, i < a.length), z3.Select(a.arr, i) == z3.Select(b.arr, i)),
                                    patterns=[z3.Select(a.arr, i)]))
        return False
    return len(a) == len(b) and all(x is y for x, y in zip(a, b))


class ReadTag:
    """Native reading of READ: what a stub definition's `read` returns."""

    def __init__(self, d, lookup, visitors, allow):
        self.d, self.lookup, self.visitors, self.allow = d, list(lookup), list(visitors), allow

    def __eq__(self, other):
        return (isinstance(other, ReadTag) and self.d is other.d and self.allow == other.allow
                and len(self.lookup) == len(other.lookup) and all(x is y for x, y in zip(self.lookup, other.lookup))
                and len(self.visitors) == len(other.visitors) and all(x is y for x, y in zip(self.visitors, other.visitors)))

    __hash__ = None


def READ(d, lookup, visitors, allow):
    if smt():
        e = speclib.CTX.engine
        f = e.uf("ghost!read", RefSort, lookup.arr.sort(), z3.IntSort(), visitors.arr.sort(), z3.IntSort(), z3.BoolSort(),
                 RefSort)
        return f(d.ref, lookup.arr, lookup.length, visitors.arr, visitors.length, Bool.unwrap(allow))
    return ReadTag(d, lookup, visitors, allow)


def IS_READ(result, d, lookup, visitors, allow):
    if smt():
        from pyvc.values import OptV

        r = result.val if isinstance(result, OptV) else result
        if not isinstance(r, Obj):
            return False
        return AND(NOT(IS_NONE(result)), r.ref == READ(d, lookup, visitors, allow))
    return result == READ(d, lookup, visitors, allow)


def SAME_OPT_OBJ(a, b):
    """identity of two Optional[object] values (`is`)"""
    if smt():
        from pyvc.values import OptV

        def parts(x):
            if isinstance(x, OptV):
                return x.is_none, x.val
            return (x is None), x

        na, va = parts(a)
        nb, vb = parts(b)
        same = va.ref == vb.ref if isinstance(va, Obj) and isinstance(vb, Obj) else False
        return OR(AND(na, nb), AND(NOT(na), NOT(nb), same))
    return a is b


def DEF_EQ(a, b):
    """`==` between definitions: same full name and same version (DSDLDefinition.__eq__)"""
    return AND(EQ(NAME(a), NAME(b)), EQ(VERSION(a), VERSION(b)))


# ------------------------------------------------------------------------------------------------ class specifications
@class_spec(DSDLFILE)
class _DSDLFileSpec:
    fields = {}
    eq = staticmethod(lambda a, b: DEF_EQ(a, b))


@class_spec(READABLE)
class _ReadableSpec:
    fields = {}


@class_spec(VISITOR)
class _VisitorSpec:
    fields = {}


@class_spec(DSDLDEF)
class _DSDLDefinitionSpec:
    fields = dict(
        _file_path=Str,             # pathlib.Path values are only passed around and compared
        _root_namespace_path=Str,
        _text=Opt(Str),
        _fixed_port_id=Opt(Int),
        _version=VersionK,
        _name=Str,
        _cached_type=Opt(ObjOf(COMPOSITE)),
    )
    mutable = ["_text", "_cached_type"]


@class_spec(BUILDER)
class _BuilderSpec:
    fields = dict(
        _definition=ObjOf(READABLE),
        _lookup_definitions=SeqOf(ObjOf(READABLE)),
        _definition_visitors=SeqOf(ObjOf(VISITOR)),
        _print_output_handler=HANDLER,
        _allow_unregulated_fixed_port_id=Bool,
        _is_deprecated=Bool,
    )


inline_ok(
    DSDLDEF + ".full_name", DSDLDEF + ".version", DSDLDEF + ".file_path", DSDLDEF + ".fixed_port_id",
    DSDLDEF + ".has_fixed_port_id", DSDLDEF + ".composite_type", DSDLDEF + ".root_namespace_path",
)


# ------------------------------------------------------------------------------------------------ interface: DSDLFile
class _Iface:
    verify = False
    assumed = ("interface contract of an abstract property of DSDLFile: a pure function of the (immutable) definition "
               "object; full_name / version / paths are the fields set in __init__ (inlined accessors), full_namespace / "
               "root_namespace / name_components are the shared functions of the full name of specs/names.py, which "
               "DSDLDefinition's accessors are proved to compute under C15")


def _components(d):
    """the components of the full name (specs/names.py; proved for DSDLDefinition.name_components under C15)"""
    if smt():
        from .names import NAME_PARTS

        return NAME_PARTS(NAME(d))
    return d.name_components


def _path_field(name):
    def value(s):
        return getattr(AS(s.self, DSDLDEF), name) if smt() else None
    return staticmethod(value)


@contract(DSDLFILE + ".full_name", props=["C09", "C10", "C19"])
class _IfFullName(_Iface):
    returns = Str
    value = staticmethod(lambda s: NAME(s.self))


@contract(DSDLFILE + ".version", props=["C09", "C10", "C19"])
class _IfVersion(_Iface):
    returns = VersionK
    value = staticmethod(lambda s: VERSION(s.self))


@contract(DSDLFILE + ".full_namespace", props=["C09", "C19"])
class _IfNamespace(_Iface):
    returns = Str
    value = staticmethod(lambda s: NAMESPACE(s.self))

    def post(s):
        # the defining property of the shared ghost: exactly the clause that C15 proves of DSDLDefinition.full_namespace
        from .names import IS_NAMESPACE_OF

        return {"components-are-all-but-the-last": IS_NAMESPACE_OF(s.result, NAME(s.self))}


@contract(DSDLFILE + ".root_namespace", props=["C09", "C19"])
class _IfRootNs(_Iface):
    returns = Str
    value = staticmethod(lambda s: ROOT_NS(s.self))


@contract(DSDLFILE + ".name_components", props=["C09", "C19"])
class _IfComponents(_Iface):
    returns = SeqOf(Str)
    value = staticmethod(lambda s: _components(s.self))

    def post(s):
        return {"non-empty": LEN(s.result) >= 1}


@contract(DSDLFILE + ".file_path", props=["C09", "C10", "C19"])
class _IfFilePath(_Iface):
    returns = Str
    value = _path_field("_file_path")


@contract(DSDLFILE + ".root_namespace_path", props=["C09", "C19"])
class _IfRootPath(_Iface):
    returns = Str
    value = _path_field("_root_namespace_path")


@contract(VISITOR + ".on_definition", props=["C09", "C19"])
class _IfOnDefinition:
    """Interface contract of DefinitionVisitor.on_definition: returns normally (the only implementation,
    _namespace_reader._read_definitions._Callback, records the dependency)."""
    params = dict(target_dsdl_file=ObjOf(DSDLFILE), dependency_dsdl_file=ObjOf(READABLE))
    verify = False
    assumed = "interface contract: a visitor returns normally"


@contract(READABLE + ".read", props=["C09", "C10", "C19"])
class _IfRead:
    """Interface contract of ReadableDSDLFile.read: the result is the value of this call (call tagging, see the module
    docstring); any pydsdl.Error may escape."""
    params = dict(lookup_definitions=SeqOf(ObjOf(READABLE)), definition_visitors=SeqOf(ObjOf(VISITOR)),
                  print_output_handler=HANDLER, allow_unregulated_fixed_port_id=Bool, strict=Bool)
    returns = ObjOf(COMPOSITE)
    may_raise = ["Error"]
    verify = False
    assumed = ("interface contract of the abstract method; DSDLDefinition.read is verified separately; exceptions of a "
               "nested read are abstracted to the base class pydsdl.Error")

    def post(s):
        return {"tag": IS_READ(s.result, s.self, s.lookup_definitions, s.definition_visitors,
                               s.allow_unregulated_fixed_port_id)}

    # termination measure of the mutual recursion read -> parse -> resolve_versioned_data_type -> read
    decreases = staticmethod(lambda s: (LEN(FILTER(s.lookup_definitions, lambda d: NOT(DEF_EQ(d, s.self)), strict=True)), 2))


# ------------------------------------------------------------------------------------------------ C09-1 resolution
def reference_full_name(builder, name):
    """Statement: a name without dots is taken relative to the referring definition's own namespace."""
    return ITE(HAS_DOT(name), name, CONCAT(NAMESPACE(builder._definition), ".", name))


def matches(d, full, version):
    """case-insensitive name match with exactly the requested version"""
    return AND(EQ(lower(NAME(d)), lower(full)), EQ(VERSION(d), version))


def n_matches_is_0(L, full, version):
    return NOT(EXISTS_IDX(L, lambda i, d: matches(d, full, version)))


def n_matches_gt_1(L, full, version):
    return EXISTS_IDX(L, lambda i, a: AND(matches(a, full, version), EXISTS_IDX(
        L, lambda j, b: matches(b, full, version), lo=i + 1, name="j")))


@contract(BUILDER + ".resolve_versioned_data_type", props=P)
class _Resolve:
    params = dict(name=Str, version=VersionK)
    returns = ObjOf(COMPOSITE)
    may_raise = ["Error"]  # only from the nested read (interface contract of ReadableDSDLFile.read)

    @staticmethod
    def _full(s):
        return reference_full_name(s.self, s.name)

    raises = {
        "UndefinedDataTypeError": lambda s: n_matches_is_0(s.self._lookup_definitions, _Resolve._full(s), s.version),
        # a match that differs from the reference by letter case only; with several matches either collision class
        # is a clean failure (DataTypeNameCollisionError is a DataTypeCollisionError)
        "DataTypeNameCollisionError": lambda s: OR(
            n_matches_gt_1(s.self._lookup_definitions, _Resolve._full(s), s.version),
            EXISTS_IDX(s.self._lookup_definitions, lambda i, d: AND(matches(d, _Resolve._full(s), s.version),
                                                                    NOT(EQ(NAME(d), _Resolve._full(s)))))),
        "DataTypeCollisionError": lambda s: n_matches_gt_1(s.self._lookup_definitions, _Resolve._full(s), s.version),
    }

    def post(s):
        L = s.self._lookup_definitions
        full = _Resolve._full(s)
        return {
            # the definition handed to .read: exactly the named one, an element of the lookup list, read with the
            # builder's own lookup list / visitors / flag
            "reads-the-named-definition": EXISTS_IDX(L, lambda i, d: AND(
                EQ(NAME(d), full), EQ(VERSION(d), s.version),
                IS_READ(s.result, d, L, s.self._definition_visitors, s.self._allow_unregulated_fixed_port_id))),
        }

    decreases = staticmethod(lambda s: (LEN(s.self._lookup_definitions), 0))


# ------------------------------------------------------------------------------------------------ C09-2 read
SCHEMA_BUILDER = "pydsdl._data_schema_builder.DataSchemaBuilder"


@class_spec(SCHEMA_BUILDER)
class _SchemaBuilderSpec:
    fields = {}


inline_ok(SCHEMA_BUILDER + ".__init__", why="constructor that only initialises empty containers / flags")


def FINALIZED(builder):
    """Call tag of DataTypeBuilder.finalize: the composite that finalizing this builder object yields."""
    if smt():
        return speclib.CTX.engine.uf("ghost!finalize", RefSort, RefSort)(builder.ref)
    return None


def _ref_of(x):
    """reference term of an object-valued result; None when the value is not an object (e.g. a concrete None)"""
    from pyvc.values import OptV

    if isinstance(x, OptV):
        x = x.val
    return x.ref if isinstance(x, Obj) else None


def IS_FINALIZED(result, builder):
    if smt():
        r = _ref_of(result)
        return False if r is None else AND(NOT(IS_NONE(result)), r == FINALIZED(builder))
    return True


@contract(BUILDER + ".__init__", props=P)
class _BuilderInit:
    params = dict(definition=ObjOf(READABLE), lookup_definitions=SeqOf(ObjOf(READABLE)),
                  definition_visitors=SeqOf(ObjOf(VISITOR)), print_output_handler=HANDLER,
                  allow_unregulated_fixed_port_id=Bool)

    def post(s):
        b = s.self
        return {
            "definition": SAME_OBJ(b._definition, s.definition),
            "lookup-copied": SAME_SEQ(b._lookup_definitions, s.lookup_definitions),
            "visitors": SAME_SEQ(b._definition_visitors, s.definition_visitors),
            "flag": EQ(b._allow_unregulated_fixed_port_id, s.allow_unregulated_fixed_port_id),
        }


@contract(BUILDER + ".finalize", props=["C09", "C03", "C05"])
class _Finalize:
    """Assumed here (the construction of the composite from the collected statements is the subject of C03/C05):
    returns a composite - tagged by the builder's construction arguments - or raises."""
    returns = ObjOf(COMPOSITE)
    may_raise = ["Error", "Exception"]
    verify = False
    assumed = "DataTypeBuilder.finalize: subject of C03/C05; here only `returns a composite or raises`"

    def post(s):
        return {"tag": IS_FINALIZED(s.result, s.self)}


@contract(PARSER + "parse", props=["C09", "C03", "C13"])
class _Parse:
    """Assumed: the parser drives the statement stream processor it was given (and nothing else); any exception of a
    callback or of the grammar may escape.  Termination: it calls back only into the given processor."""
    params = dict(text=Str, statement_stream_processor=ObjOf(BUILDER), strict=Bool)
    may_raise = ["Error", "Exception"]
    verify = False
    assumed = ("_parser.parse (parsimonious grammar + visitor): invokes methods of the given statement stream processor "
               "only; may raise anything")
    decreases = staticmethod(lambda s: (LEN(s.statement_stream_processor._lookup_definitions), 1))


@contract(DSDLDEF + ".text", props=["C09", "C19"])
class _Text:
    """Assumed (file system): returns the text of the file, loading it on first use."""
    returns = Str
    may_raise = ["OSError", "UnicodeDecodeError"]
    modifies = ["_text"]
    verify = False
    assumed = "DSDLDefinition.text opens and reads the file (file system: out of reach); caches it in _text"


def _first(entries):
    return entries[0] if entries else None


def EXC_PATH_KNOWN(exc):
    """the escaping pydsdl Error names a file"""
    if smt():
        from pyvc.values import OptV, RecV

        p = speclib.CTX.engine.lib.exc_attr(speclib.CTX, exc, "_path")
        if p is None:
            return False
        if isinstance(p, OptV):
            v = p.val
            inner = True if isinstance(v, RecV) else (z3.Length(v) > 0 if isinstance(v, z3.ExprRef) else bool(v))
            return AND(NOT(p.is_none), inner)
        if isinstance(p, z3.ExprRef) and z3.is_string(p):
            return z3.Length(p) > 0
        return bool(p) if isinstance(p, (str,)) else True
    return exc.path is not None


@contract(DSDLDEF + ".read", props=P + ["C13"])
class _Read:
    params = dict(lookup_definitions=SeqOf(ObjOf(READABLE)), definition_visitors=SeqOf(ObjOf(VISITOR)),
                  print_output_handler=HANDLER, allow_unregulated_fixed_port_id=Bool, strict=Bool)
    returns = ObjOf(COMPOSITE)
    may_raise = ["Error"]  # InvalidDefinitionError / InternalError; nothing else (see noraise obligations)
    decreases = _IfRead.decreases

    @staticmethod
    def _frame(s):
        o, d = s.old, s.self
        return AND(EQ(d._name, o._name), EQ(d._version, o._version), EQ(d._file_path, o._file_path),
                   EQ(d._root_namespace_path, o._root_namespace_path), EQ(d._fixed_port_id, o._fixed_port_id))

    def post(s):
        d, o = s.self, s.old
        hit = NOT(IS_NONE(o._cached_type))
        clauses = {
            # cache transparency: once set, the cached composite is returned unchanged and nothing is touched
            "cache-hit-returns-cached": IMPLIES(hit, lambda: AND(SAME_OBJ(s.result, VAL(o._cached_type)),
                                                                 SAME_OPT_OBJ(d._cached_type, o._cached_type),
                                                                 EQ(d._text, o._text))),
            "miss-fills-cache": IMPLIES(NOT(hit), lambda: AND(NOT(IS_NONE(d._cached_type)),
                                                               SAME_OBJ(VAL(d._cached_type), s.result))),
            "identity-unchanged": _Read._frame(s),
        }
        if smt():
            clauses.update(_Read._protocol(s, hit))
        return clauses

    @staticmethod
    def _protocol(s, hit):
        """On a cache miss (SMT reading only - the native reading cannot observe calls): one builder is constructed for
        *this* definition with the given lookup list minus this definition (no self reference) and the given visitors /
        flag; the definition's own text is parsed into that builder; the result is what finalizing that builder yields."""
        from pyvc.speclib import CALLS

        parses, fins, texts = CALLS("_parser.parse"), CALLS("DataTypeBuilder.finalize"), CALLS("DSDLDefinition.text")
        inits = CALLS("DataTypeBuilder.__init__")
        labels = ["builder-for-this-definition", "builder-lookup-excludes-self", "builder-visitors-and-flag",
                  "parses-own-text-into-builder", "returns-finalized-builder"]
        if not parses and not fins and not inits:
            # no builder was made: only allowed on a cache hit
            return {k: (hit if not isinstance(hit, bool) else z3.BoolVal(hit)) for k in labels}
        ok = (len(parses) == 1 and len(fins) == 1 and len(texts) == 1 and len(inits) == 1
              and inits[0]["index"] < parses[0]["index"] < fins[0]["index"] and texts[0]["index"] < parses[0]["index"])
        if not ok:
            return {k: z3.BoolVal(False) for k in labels}
        builder, a = inits[0]["ns"].self, inits[0]["ns"]
        d = s.self
        return {
            "builder-for-this-definition": SAME_OBJ(a.definition, d),
            "builder-lookup-excludes-self": SAME_SEQ(a.lookup_definitions,
                                                     FILTER(s.lookup_definitions, lambda x: NOT(DEF_EQ(x, d)))),
            "builder-visitors-and-flag": AND(SAME_SEQ(a.definition_visitors, s.definition_visitors),
                                             EQ(a.allow_unregulated_fixed_port_id, s.allow_unregulated_fixed_port_id)),
            "parses-own-text-into-builder": AND(SAME_OBJ(parses[0]["ns"].statement_stream_processor, builder),
                                                SAME_OBJ(texts[0]["ns"].self, d),
                                                EQ(parses[0]["ns"].text, texts[0]["result"]),
                                                EQ(parses[0]["ns"].strict, s.strict)),
            "returns-finalized-builder": AND(SAME_OBJ(fins[0]["ns"].self, builder), IS_FINALIZED(s.result, builder)),
        }

    # whenever an exception escapes, the cache is as it was (never a half-built type), identity untouched
    raises_post = {
        "BaseException": lambda s: {"cache-unchanged": SAME_OPT_OBJ(s.self._cached_type, s.old._cached_type),
                                    "identity-unchanged": _Read._frame(s)},
        # C13-2 (the funnel): every pydsdl Error leaves `read` with a path attached - its own one if it had one (an error
        # from a dependency keeps the dependency's path: Error.set_error_location_if_unknown), else this file's path
        "Error": lambda s: {"path-attached": EXC_PATH_KNOWN(s.exc)},
    }

    def pre(s):
        # a pathlib.Path is always truthy; its model (a text) must therefore be non-empty
        return {"file-path-is-a-path": NOT(EQ(s.self._file_path, ""))}


def RESULT_IS(result, clause, otherwise):
    """`result` is the boolean value of `clause()`; a NotImplemented result is allowed exactly when `otherwise` holds"""
    if smt():
        from pyvc.values import Sentinel

        if isinstance(result, Sentinel):
            return otherwise
        return AND(NOT(otherwise), IFF(result, clause()))
    if result is NotImplemented:
        return otherwise
    return (not otherwise) and result == bool(clause())


@contract(DSDLDEF + ".__eq__", props=P)
class _DefEq:
    params = dict(other=ObjOf(READABLE))

    def post(s):
        return {"same-name-and-version": RESULT_IS(s.result, lambda: DEF_EQ(s.self, s.other), NOT(ISINST(s.other, DSDLDEF)))}


def KEY_HASH(name, version):
    """hash of the key (full name, version): a function of exactly these two values"""
    if smt():
        c = speclib.CTX
        return c.engine.lib.bi_hash(c, (name, version))
    return hash((name, version))


@contract(DSDLDEF + ".__hash__", props=P)
class _DefHash:
    def post(s):
        # equal definitions (same name and version) have equal hashes: the hash is a function of that key only
        return {"function-of-the-eq-key": s.result == KEY_HASH(NAME(s.self), VERSION(s.self))}


# ------------------------------------------------------------------------------------------------ native harness
from pyvc.native import NativeSuite

NATIVE = NativeSuite()
LEVEL = "proof"
LEAN = ["Filter.lean"]


def _stub_classes():
    import pydsdl
    from pydsdl import _dsdl
    from pydsdl._serializable import Version

    class StubDefinition(_dsdl.ReadableDSDLFile):
        """A ReadableDSDLFile whose identity data is given directly (no file system)."""

        def __init__(self, full_name, version, fail=False):
            self._n, self._v, self._fail = full_name, Version(*version), fail
            self.reads = []

        composite_type = property(lambda self: None)
        full_name = property(lambda self: self._n)
        name_components = property(lambda self: self._n.split("."))
        short_name = property(lambda self: self._n.split(".")[-1])
        full_namespace = property(lambda self: ".".join(self._n.split(".")[:-1]))
        root_namespace = property(lambda self: self._n.split(".")[0])
        text = property(lambda self: "")
        version = property(lambda self: self._v)
        fixed_port_id = property(lambda self: None)
        has_fixed_port_id = property(lambda self: False)
        file_path = property(lambda self: __import__("pathlib").Path("/stub") / (self._n + ".%d.%d.dsdl" % self._v))
        root_namespace_path = property(lambda self: __import__("pathlib").Path("/stub"))

        def read(self, lookup_definitions, definition_visitors, print_output_handler, allow_unregulated_fixed_port_id,
                 *, strict=False):
            if self._fail:
                raise pydsdl.InvalidDefinitionError("nested failure")
            return ReadTag(self, lookup_definitions, definition_visitors, allow_unregulated_fixed_port_id)

        def __eq__(self, other):
            return isinstance(other, StubDefinition) and self._n == other._n and self._v == other._v

        def __hash__(self):
            return hash((self._n, self._v))

    class StubVisitor(_dsdl.DefinitionVisitor):
        def __init__(self):
            self.seen = []

        def on_definition(self, target_dsdl_file, dependency_dsdl_file):
            self.seen.append((target_dsdl_file, dependency_dsdl_file))

    return StubDefinition, StubVisitor


_NAMES = ["ns.A", "ns.a", "ns.B", "ns.sub.A", "NS.A", "other.A", "ns.K", "ns.K"]


def _gen_resolve(rng, i):
    own = rng.choice(["ns.Self", "ns.sub.Self", "other.Self", "Top"])
    name = rng.choice(["A", "a", "B", "ns.A", "ns.a", "Ns.A", "ns.sub.A", "other.A", "K", "ns.C"])
    version = [rng.choice([0, 1, 1, 2]), rng.choice([0, 1])]
    full = name if "." in name else ".".join(own.split(".")[:-1] + [name])
    n = rng.choice([0, 1, 2, 2, 3, 4])
    lookup = []
    for _ in range(n):
        r = rng.random()
        if r < 0.45:    # a (near) match: same name up to letter case, mostly the same version
            nm = rng.choice([full, full, full.lower(), full.upper(), full.swapcase()])
            v = list(version) if rng.random() < 0.8 else [version[0], 1 - version[1]]
        else:
            nm = rng.choice(_NAMES)
            v = [rng.choice([0, 1, 1, 2]), rng.choice([0, 1])]
        lookup.append([nm, v, rng.random() < 0.1])
    return {"own": own, "lookup": lookup, "name": name, "version": version,
            "allow": rng.random() < 0.5, "visitors": rng.choice([0, 1, 2])}


def _build_resolve(desc):
    from pydsdl._data_type_builder import DataTypeBuilder
    from pydsdl._serializable import Version

    StubDefinition, StubVisitor = _stub_classes()
    own = StubDefinition(desc["own"], (1, 0))
    lookup = [StubDefinition(n, tuple(v), f) for n, v, f in desc["lookup"]]
    visitors = [StubVisitor() for _ in range(desc["visitors"])]
    b = DataTypeBuilder(own, lookup, visitors, lambda line, text: None, desc["allow"])
    version = Version(*desc["version"])
    return (lambda: b.resolve_versioned_data_type(desc["name"], version)), {"self": b, "name": desc["name"],
                                                                            "version": version}


NATIVE.add(BUILDER + ".resolve_versioned_data_type", _gen_resolve, _build_resolve)

# -- real DSDLDefinition objects over a scratch directory (removed at exit)
_SCRATCH = {"dir": None}


def _scratch_dir():
    import atexit
    import shutil
    import tempfile

    if _SCRATCH["dir"] is None:
        _SCRATCH["dir"] = tempfile.mkdtemp(prefix="c09-native-")
        atexit.register(shutil.rmtree, _SCRATCH["dir"], True)
    return _SCRATCH["dir"]


_TYPE_NAMES = ["A", "B", "C"]


def _gen_namespace(rng, i):
    """A small root namespace `ns`: each file has a list of references (possibly to itself, cyclic, missing, or by a
    name that differs by letter case) and possibly an error of its own."""
    files = []
    for nm in _TYPE_NAMES[: rng.choice([1, 2, 3, 3])]:
        for ver in rng.sample([(1, 0), (1, 1), (2, 0)], rng.choice([1, 1, 2])):
            refs = []
            for _ in range(rng.choice([0, 0, 1, 1, 2])):
                refs.append([rng.choice(_TYPE_NAMES + ["ns.A", "ns.B", "a", "Missing"]), list(rng.choice([(1, 0), (1, 1), (2, 0)]))])
            files.append({"name": nm, "version": list(ver), "refs": refs, "bad": rng.random() < 0.1})
    return {"files": files, "target": rng.randrange(len(files)), "pre_read": rng.random() < 0.3,
            "drop_self_from_lookup": rng.random() < 0.2}


def _materialise(desc):
    import os
    from pathlib import Path
    from pydsdl._dsdl_definition import DSDLDefinition

    root = Path(_scratch_dir()) / ("n%d" % (abs(hash(repr(desc))) % 10 ** 12)) / "ns"
    os.makedirs(root, exist_ok=True)
    defs = []
    for f in desc["files"]:
        p = root / ("%s.%d.%d.dsdl" % (f["name"], f["version"][0], f["version"][1]))
        lines = ["%s.%d.%d f%d" % (r[0], r[1][0], r[1][1], k) for k, r in enumerate(f["refs"])]
        if f["bad"]:
            lines.append("@assert false")
        lines.append("@sealed")
        p.write_text("\n".join(lines) + "\n")
        defs.append(DSDLDefinition(p, root))
    return defs


def _snapshot(d):
    from types import SimpleNamespace

    return SimpleNamespace(_cached_type=d._cached_type, _text=d._text, _name=d._name, _version=d._version,
                           _file_path=d._file_path, _root_namespace_path=d._root_namespace_path,
                           _fixed_port_id=d._fixed_port_id)


def _build_read(desc):
    defs = _materialise(desc)
    target = defs[desc["target"]]
    lookup = [d for d in defs if not (desc["drop_self_from_lookup"] and d is target)]
    handler = lambda line, text: None
    if desc["pre_read"]:
        try:
            target.read(lookup, [], handler, True)
        except Exception:
            pass
    ns = {"self": target, "lookup_definitions": lookup, "definition_visitors": [], "print_output_handler": handler,
          "allow_unregulated_fixed_port_id": True, "strict": False, "old": _snapshot(target)}
    return (lambda: target.read(lookup, [], handler, True)), ns


NATIVE.add(DSDLDEF + ".read", _gen_namespace, _build_read)


def _gen_pair(rng, i):
    return {"a": [rng.choice(["A", "B"]), list(rng.choice([(1, 0), (1, 1)]))],
            "b": [rng.choice(["A", "B"]), list(rng.choice([(1, 0), (1, 1)]))], "other_kind": rng.random() < 0.15,
            "legacy": rng.random() < 0.3}


def _pair(desc):
    import os
    from pathlib import Path
    from pydsdl._dsdl_definition import DSDLDefinition

    out = []
    for k, key in enumerate(("a", "b")):
        root = Path(_scratch_dir()) / ("p%d" % k) / "ns"
        os.makedirs(root, exist_ok=True)
        ext = "uavcan" if (desc["legacy"] and k == 1) else "dsdl"
        p = root / ("%s.%d.%d.%s" % (desc[key][0], desc[key][1][0], desc[key][1][1], ext))
        p.write_text("@sealed\n")
        out.append(DSDLDefinition(p, root))
    return out


def _build_eq(desc):
    a, b = _pair(desc)
    other = "not a definition" if desc["other_kind"] else b
    return (lambda: a.__eq__(other)), {"self": a, "other": other}


def _build_hash(desc):
    a, b = _pair(desc)
    return (lambda: a.__hash__()), {"self": a}


NATIVE.add(DSDLDEF + ".__eq__", _gen_pair, _build_eq)
NATIVE.add(DSDLDEF + ".__hash__", _gen_pair, _build_hash)


def _build_builder_init(desc):
    from pydsdl._data_type_builder import DataTypeBuilder

    StubDefinition, StubVisitor = _stub_classes()
    own = StubDefinition(desc["own"], (1, 0))
    lookup = [StubDefinition(n, tuple(v), f) for n, v, f in desc["lookup"]]
    visitors = [StubVisitor() for _ in range(desc["visitors"])]
    handler = lambda line, text: None
    return (lambda: DataTypeBuilder(own, lookup, visitors, handler, desc["allow"])), {
        "definition": own, "lookup_definitions": lookup, "definition_visitors": visitors,
        "print_output_handler": handler, "allow_unregulated_fixed_port_id": desc["allow"]}


NATIVE.add(BUILDER + ".__init__", _gen_resolve, _build_builder_init)
NATIVE_BUDGET = {"quick": 150, "thorough": 2000}

NOT_COVERED = []
EXPLANATION = ""
ASSUMPTIONS = []


# effect obligations (AST, complete for what they state): no memoising decorator, no module-level state - see specs/common.py
from .common import no_hidden_state_check as _no_hidden_state_check  # noqa: E402
EXTRA_CHECKS = list(globals().get("EXTRA_CHECKS", [])) + [_no_hidden_state_check(
    ["pydsdl._data_type_builder", "pydsdl._dsdl_definition"], "reference resolution")]


# the name accessors of DSDLDefinition (full_namespace, short_name, root_namespace, name_components) are USED here through the
# interface contracts of ReadableDSDLFile; their bodies are verified in the run of C15 - imported so that a change which
# breaks them (a relative reference then completes in the wrong namespace) is reported by this check too
from .link import linked as _linked  # noqa: E402
EXTRA_CHECKS = list(globals().get("EXTRA_CHECKS", [])) + [_linked(
    "C15", "the name accessors of DSDLDefinition",
    ["DSDLDefinition.full_namespace", "DSDLDefinition.short_name", "DSDLDefinition.root_namespace", "DSDLDefinition.name_components"],
    ["_dsdl_definition.py", "_serializable/_composite.py", "_serializable/_name.py"],
    ["c15.py", "c05.py", "names.py", "common.py", "fsprobe.py"])]
