"""
C17 - Errors and @print output are attributed to the right file and line.

Built on the C03 machinery (specs/c03.py: builder, processor and the assumed traversal specs/drivers/c03_driver.py):

  (c) line bookkeeping      INV clause `line-is-one-plus-eol` of every traversal step; visit_end_of_line adds exactly one.
  (i) error line            an error that belongs to the attribute statement on line g_line (its constructor runs when the
                            statement is COMMITTED) must leave the traversal while the processor is on that line, because
                            `parse` injects `pr.current_line_number` into an error whose line is unknown.  Stated as one-sided
                            exceptional postconditions of the traversal steps (`raise X  =>  current line == g_line`).
                            Not provable on the pinned tree: finding F2.
  (d) @print                on_directive / visit_statement_directive_*: the handler is called exactly once per @print with
                            (the processor's current line, str(value)).
  (ii) location injection   Error.set_error_location_if_unknown fills only unknown parts (innermost location wins, so an
                            error of a dependency keeps the dependency's path).
"""
import z3
from pyvc.spec import contract, class_spec, inline_ok, REG
from pyvc.values import Int, Bool, Str, Opt, ObjOf
from pyvc.speclib import AND, OR, NOT, IMPLIES, IFF, ITE, EQ, IS_NONE, VAL, smt
from pyvc import speclib
from . import c03
from .c03 import DRV, ghost_of, B, PENDING, T_NONE

P = ["C17"]
ERROR = "pydsdl._error.Error"

# errors raised by the constructors of the attribute objects / by add_field: they belong to the statement being committed
ATTRIBUTE_ERRORS = ["BitLengthAnalysisError", "InvalidNameError", "InvalidTypeError", "InvalidConstantValueError"]


from pyvc import ext_expr as _X  # noqa: F401  location fields (_path/_line) of exception values; Error methods inlined on them


def EXC_LINE(exc):
    """(known, value) of the line number an escaping pydsdl Error carries (known: present and non-zero)."""
    if smt():
        ln = speclib.CTX.engine.lib.exc_attr(speclib.CTX, exc, "_line")
        if ln is None:
            return False, 0
        if isinstance(ln, int):
            return ln != 0, ln
        if isinstance(ln, z3.ExprRef):
            return ln != 0, ln
        return AND(NOT(IS_NONE(ln)), NOT(VAL(ln) == 0)), VAL(ln)
    return bool(exc.line), exc.line


def reported_line(s):
    """The line the error leaves `parse` with: its own if it carries one, else the processor's current line (parse()
    calls set_error_location_if_unknown(line=pr.current_line_number))."""
    known, val = EXC_LINE(s.exc)
    return ITE(known, val, 1 + ghost_of(s).eol)


def reported_at_the_statement(s):
    """An error that belongs to the open attribute statement is reported at that statement's line."""
    g = ghost_of(s)
    return AND(g.open, reported_line(s) == g.line)


_CLOSING_STEPS = ["line_blank", "line_field", "line_constant", "line_padding", "line_directive_with_expression",
                  "line_directive_without_expression", "line_service_response_marker", "end_of_input"]

for _name in _CLOSING_STEPS:
    _c = REG.contracts[DRV + _name]
    _c.raises = {}
    _c.raises_implies = {x: reported_at_the_statement for x in ATTRIBUTE_ERRORS}
    _c.raises_implies["InvalidDefinitionError"] = lambda s: True  # errors of the statement being visited: current line
    if "C17" not in _c.props:
        _c.props.append("C17")
REG.contracts[DRV + "end_of_input"].post = None  # what must hold at the end of the input is C03's obligation (F1)
for _name in ["line_comment_only"]:
    if "C17" not in REG.contracts[DRV + _name].props:
        REG.contracts[DRV + _name].props.append("C17")


# ---- which line number an escaping error carries (`raises-carries#<class>#_line` obligations of the real bodies)
def _no_line(s, xname):
    """raised without a location (the constructors and the builder do not know line numbers)"""
    return {"_line": None}


def _directive_line(s, xname):
    # _on_assert_directive passes line=line_number itself; every other directive error is raised without a location
    return {"_line": s.line_number if xname == "AssertionCheckFailureError" else None}


def _memo_line(p):
    """the remembered line of the pending attribute statement, if the processor remembers one (fix of F2)"""
    from pyvc.values import OptV

    if not c03.HAS_LINE_MEMO:
        return None
    m = c03.MEMO(p)
    return OptV(m == 0, m) if smt() else (m or None)


def _processor_line(s, xname):
    if xname in ATTRIBUTE_ERRORS:
        return {"_line": _memo_line(s.old)}       # raised by the flush that commits the pending statement
    if xname == "AssertionCheckFailureError":
        return {"_line": s.old._current_line_number}
    return {"_line": None}


for _q, _fn in ([(c03.DSB + ".add_field", _no_line), (c03.ATTRIBUTE + ".__init__", _no_line), (c03.PADDING + ".__init__", _no_line),
                 (c03.CONSTANT + ".__init__", _no_line),
                 ("pydsdl._expression._primitive.Rational.as_native_integer", _no_line),
                 (c03.DTB + ".on_directive", _directive_line)] +
                [(c03.DTB + "." + n, _no_line) for n in ("on_attribute_comment", "on_field", "on_constant", "on_padding_field",
                                                         "on_service_response_marker")] +
                [(c03.PTP + "." + n, _processor_line) for n in (
                    "_flush_comment", "visit_line", "visit_identifier", "visit_statement_field", "visit_statement_constant",
                    "visit_statement_padding_field", "visit_statement_service_response_marker",
                    "visit_statement_directive_with_expression", "visit_statement_directive_without_expression")]):
    _c = REG.contracts[_q]
    _c.exc_fields = _fn
    if "C17" not in _c.props:
        _c.props.append("C17")


# ------------------------------------------------------------------------------------------------ location injection
@class_spec(ERROR)
class _ErrorSpec:
    fields = dict(_path=Opt(Str), _line=Opt(Int))
    mutable = ["_path", "_line"]


def _known_path(p):
    """`if self._path` - a path is known iff it is not None (a Path object is always truthy; modelled as a non-empty text)."""
    return NOT(IS_NONE(p))


@contract(ERROR + ".set_error_location_if_unknown", props=P)
class _SetLocation:
    params = dict(path=Opt(Str), line=Opt(Int))

    def pre(s):
        # paths are non-empty, line numbers are positive (1-based): the truth value of a known part is True
        return {"known-path-is-truthy": IMPLIES(NOT(IS_NONE(s.self._path)), lambda: NOT(EQ(VAL(s.self._path), ""))),
                "known-line-is-positive": IMPLIES(NOT(IS_NONE(s.self._line)), lambda: VAL(s.self._line) >= 1),
                "given-path-is-truthy": IMPLIES(NOT(IS_NONE(s.path)), lambda: NOT(EQ(VAL(s.path), ""))),
                "given-line-is-positive": IMPLIES(NOT(IS_NONE(s.line)), lambda: VAL(s.line) >= 1)}

    def post(s):
        new, old = s.self, s.old
        return {
            "known-path-kept": IMPLIES(NOT(IS_NONE(old._path)), lambda: c03.SAME(new._path, old._path)),
            "known-line-kept": IMPLIES(NOT(IS_NONE(old._line)), lambda: c03.SAME(new._line, old._line)),
            "unknown-path-filled": IMPLIES(IS_NONE(old._path), lambda: c03.SAME(new._path, s.path)),
            "unknown-line-filled": IMPLIES(IS_NONE(old._line), lambda: c03.SAME(new._line, s.line)),
        }


# ------------------------------------------------------------------------------------------------ parse(): line injection
# The assumed contract of NodeVisitor.visit on the processor (pyvc/ext_expr.py, C13) is wrapped: an Error that leaves the
# traversal remembers (ghost fields) the line it carried and the processor's line counter at that moment.
from pyvc.libmodel import Lib as _Lib
from pyvc.symexec import PyRaise as _PyRaise
from pyvc.frontend import ClassInfo as _ClassInfo
from pyvc.values import MutObjOf as _MutObjOf

_orig_visit = _Lib.m_other_visit


def _visit_with_ghost(self, ctx, o, tree):
    try:
        return _orig_visit(self, ctx, o, tree)
    except _PyRaise as pr:
        exc = pr.exc
        if isinstance(exc.cls, _ClassInfo) and getattr(o, "fields", None) is not None:
            exc.fields["__line_when_raised__"] = self.exc_attr(ctx, exc, "_line")
            exc.fields["__processor_line_when_raised__"] = o.fields["_current_line_number"]
        raise


_Lib.m_other_visit = _visit_with_ghost


@contract("pydsdl._parser._get_grammar", props=P)
class _GetGrammarAssumed:
    returns = _X.GrammarK
    verify = False
    assumed = "third party: the parsimonious Grammar object built from grammar.parsimonious (PEG semantics assumed)"


def _line_known(ln):
    if ln is None:
        return False, 0
    if isinstance(ln, int):
        return ln != 0, ln
    if isinstance(ln, z3.ExprRef):
        return ln != 0, ln
    return AND(NOT(IS_NONE(ln)), NOT(VAL(ln) == 0)), VAL(ln)


def _parse_line_rule(s):
    """An Error leaves parse() with a line: its own if it carried one when it left the traversal (a recursive instance
    or the flush of a remembered statement), else the processor's current line; a syntax error carries the parser's."""
    f = s.exc.fields
    known, val = EXC_LINE(s.exc)
    if "__processor_line_when_raised__" not in f:
        return known
    k0, v0 = _line_known(f["__line_when_raised__"])
    return AND(known, val == ITE(k0, v0, f["__processor_line_when_raised__"]))


@contract("pydsdl._parser.parse", props=P)
class _ParseLocation:
    params = dict(text=Str, statement_stream_processor=_MutObjOf(c03.DTB), strict=Bool)
    raises_implies = {"InternalError": lambda s: EXC_LINE(s.exc)[0], "InvalidDefinitionError": _parse_line_rule}


# ------------------------------------------------------------------------------------------------ native harness
from pyvc.native import NativeSuite

NATIVE = NativeSuite()
LEVEL = "proof"


def _gen_loc(rng, i):
    opts_p = [None, "a/B.1.0.dsdl", "c/D.1.0.dsdl"]
    opts_l = [None, 1, 7]
    return {"p0": rng.choice(opts_p), "l0": rng.choice(opts_l), "p": rng.choice(opts_p), "l": rng.choice(opts_l)}


def _build_loc(d):
    from pathlib import Path
    from pydsdl._error import Error

    mk = lambda x: Path(x) if x is not None else None
    e = Error("x", path=mk(d["p0"]), line=d["l0"])
    old = c03._View(_path=e._path, _line=e._line)
    p = mk(d["p"])
    return (lambda: e.set_error_location_if_unknown(path=p, line=d["l"])), {"self": e, "old": old, "path": p, "line": d["l"]}


NATIVE.add(ERROR + ".set_error_location_if_unknown", _gen_loc, _build_loc)
from .reader_link import reader_contracts  # noqa: E402  contracts of the namespace reader, proved in their own process (C10R)

EXTRA_CHECKS = [c03.extra_whole_text_locations] if hasattr(c03, "extra_whole_text_locations") else []
EXTRA_CHECKS = EXTRA_CHECKS + [reader_contracts]
NOT_COVERED = [
    "DSDLDefinition.read: path injection `set_error_location_if_unknown(path=self.file_path)` is proved under C09/C13 "
    "(raises-post#Error#path-attached), not here; _read_definitions: proved in its own process (runner C10R, extra check "
    "reader_contracts): the escaping Error has the path it left read() with if known (a dependency's error keeps the "
    "dependency's path), else the target's; the (line, text) handler given to read() delivers exactly once under "
    "target_definition.file_path",
    "resolve_versioned_data_type (F3) is covered by the bounded native check only, not by a contract",
    "line numbers of syntax errors (DSDLSyntaxError from parsimonious.ParseError.line())",
]
EXPLANATION = ("Line attribution is decided on the assumed traversal (C03 driver): the processor's line counter is 1 + the "
               "number of end_of_line nodes visited; an error that belongs to an attribute statement surfaces when the "
               "statement is committed, and the one-sided exceptional postconditions `raise => current line == line of the "
               "statement` are NOT provable (finding F2). @print delivery is proved on on_directive and the directive visitors.")
ASSUMPTIONS = list(getattr(c03, "ASSUMPTIONS", []))


# effect obligations (AST, complete for what they state): no argument-keyed cache decorator, no module-level state - see
# specs/common.py (the outcome of reading a text depends on the text and its dependencies, not on earlier reads)
from .common import no_hidden_state_check as _no_hidden_state_check  # noqa: E402
EXTRA_CHECKS = list(globals().get("EXTRA_CHECKS", [])) + [_no_hidden_state_check(
    ["pydsdl._parser", "pydsdl._data_type_builder", "pydsdl._error"], "the location protocol")]
