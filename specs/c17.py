"""
C17 - Errors and @print output are attributed to the right file and line.

Built on the C03 machinery (specs/c03.py: builder, processor and the assumed traversal specs/drivers/c03_driver.py):

  (c) line bookkeeping      INV clause `line-is-one-plus-eol` of every traversal step; visit_end_of_line adds exactly one.
  (i) error line            an error that belongs to the attribute statement on line g_line (its constructor runs when the
                            statement is COMMITTED) must leave the traversal while the processor is on that line, because
                            `parse` injects `pr.current_line_number` into an error whose line is unknown.  Stated as one-sided
                            exceptional postconditions of the traversal steps (`raise X  =>  current line == g_line`).
                            Not provable on the pinned tree: finding F2.
  (d) @print                on_directive / visit_statement_directive_*: the handler is called exactly once per @print with
                            (the processor's current line, str(value)).
  (ii) location injection   Error.set_error_location_if_unknown fills only unknown parts (innermost location wins, so an
                            error of a dependency keeps the dependency's path).
"""
import z3
from pyvc.spec import contract, class_spec, inline_ok, REG
from pyvc.values import Int, Bool, Str, Opt, ObjOf
from pyvc.speclib import AND, OR, NOT, IMPLIES, IFF, ITE, EQ, IS_NONE, VAL, smt
from pyvc import speclib
from . import c03
from .c03 import DRV, ghost_of, B, PENDING, T_NONE

P = ["C17"]
ERROR = "pydsdl._error.Error"

# errors raised by the constructors of the attribute objects / by add_field: they belong to the statement being committed
ATTRIBUTE_ERRORS = ["BitLengthAnalysisError", "InvalidNameError", "InvalidTypeError", "InvalidConstantValueError"]


def reported_at_the_statement(s):
    """The line `parse` will inject (the processor's current line, 1 + #end_of_line) is the line of the attribute
    statement the error belongs to."""
    g = ghost_of(s)
    return AND(g.open, g.line == 1 + g.eol)


_CLOSING_STEPS = ["line_blank", "line_field", "line_constant", "line_padding", "line_directive_with_expression",
                  "line_directive_without_expression", "line_service_response_marker", "end_of_input"]

for _name in _CLOSING_STEPS:
    _c = REG.contracts[DRV + _name]
    _c.raises = {}
    _c.raises_implies = {x: reported_at_the_statement for x in ATTRIBUTE_ERRORS}
    _c.raises_implies["InvalidDefinitionError"] = lambda s: True  # errors of the statement being visited: current line
    if "C17" not in _c.props:
        _c.props.append("C17")
REG.contracts[DRV + "end_of_input"].post = None  # what must hold at the end of the input is C03's obligation (F1)
for _name in ["line_comment_only"]:
    if "C17" not in REG.contracts[DRV + _name].props:
        REG.contracts[DRV + _name].props.append("C17")


# ------------------------------------------------------------------------------------------------ location injection
@class_spec(ERROR)
class _ErrorSpec:
    fields = dict(_path=Opt(Str), _line=Opt(Int))
    mutable = ["_path", "_line"]


def _known_path(p):
    """`if self._path` - a path is known iff it is not None (a Path object is always truthy; modelled as a non-empty text)."""
    return NOT(IS_NONE(p))


@contract(ERROR + ".set_error_location_if_unknown", props=P)
class _SetLocation:
    params = dict(path=Opt(Str), line=Opt(Int))

    def pre(s):
        # paths are non-empty, line numbers are positive (1-based): the truth value of a known part is True
        return {"known-path-is-truthy": IMPLIES(NOT(IS_NONE(s.self._path)), lambda: NOT(EQ(VAL(s.self._path), ""))),
                "known-line-is-positive": IMPLIES(NOT(IS_NONE(s.self._line)), lambda: VAL(s.self._line) >= 1),
                "given-path-is-truthy": IMPLIES(NOT(IS_NONE(s.path)), lambda: NOT(EQ(VAL(s.path), ""))),
                "given-line-is-positive": IMPLIES(NOT(IS_NONE(s.line)), lambda: VAL(s.line) >= 1)}

    def post(s):
        new, old = s.self, s.old
        return {
            "known-path-kept": IMPLIES(NOT(IS_NONE(old._path)), lambda: c03.SAME(new._path, old._path)),
            "known-line-kept": IMPLIES(NOT(IS_NONE(old._line)), lambda: c03.SAME(new._line, old._line)),
            "unknown-path-filled": IMPLIES(IS_NONE(old._path), lambda: c03.SAME(new._path, s.path)),
            "unknown-line-filled": IMPLIES(IS_NONE(old._line), lambda: c03.SAME(new._line, s.line)),
        }


# ------------------------------------------------------------------------------------------------ native harness
from pyvc.native import NativeSuite

NATIVE = NativeSuite()
LEVEL = "proof"


def _gen_loc(rng, i):
    opts_p = [None, "a/B.1.0.dsdl", "c/D.1.0.dsdl"]
    opts_l = [None, 1, 7]
    return {"p0": rng.choice(opts_p), "l0": rng.choice(opts_l), "p": rng.choice(opts_p), "l": rng.choice(opts_l)}


def _build_loc(d):
    from pathlib import Path
    from pydsdl._error import Error

    mk = lambda x: Path(x) if x is not None else None
    e = Error("x", path=mk(d["p0"]), line=d["l0"])
    old = c03._View(_path=e._path, _line=e._line)
    p = mk(d["p"])
    return (lambda: e.set_error_location_if_unknown(path=p, line=d["l"])), {"self": e, "old": old, "path": p, "line": d["l"]}


NATIVE.add(ERROR + ".set_error_location_if_unknown", _gen_loc, _build_loc)
EXTRA_CHECKS = [c03.extra_whole_text_locations] if hasattr(c03, "extra_whole_text_locations") else []
NOT_COVERED = [
    "parse(): that the injected line is `pr.current_line_number` at the moment the exception leaves NodeVisitor.visit "
    "(the vendored parsimonious wraps/unwraps exceptions; read, not put under contract)",
    "DSDLDefinition.read / _read_definitions: path injection `set_error_location_if_unknown(path=self.file_path)` (two call "
    "sites, read; the callee contract above shows a known path is never overwritten, so a dependency's error keeps the "
    "dependency's path)",
    "resolve_versioned_data_type (F3) is covered by the bounded native check only, not by a contract",
    "line numbers of syntax errors (DSDLSyntaxError from parsimonious.ParseError.line())",
]
EXPLANATION = ("Line attribution is decided on the assumed traversal (C03 driver): the processor's line counter is 1 + the "
               "number of end_of_line nodes visited; an error that belongs to an attribute statement surfaces when the "
               "statement is committed, and the one-sided exceptional postconditions `raise => current line == line of the "
               "statement` are NOT provable (finding F2). @print delivery is proved on on_directive and the directive visitors.")
ASSUMPTIONS = list(getattr(c03, "ASSUMPTIONS", []))
