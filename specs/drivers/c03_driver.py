"""
ASSUMED CONTRACT of the vendored third-party parsimonious (DESIGN.md section 4), written as code:

    NodeVisitor.visit(node):  visited_children = [self.visit(c) for c in node]          # children first, left to right
                              method = getattr(self, 'visit_' + node.expr_name, self.generic_visit)
                              return method(node, visited_children)

applied to the grammar rules   definition = line (end_of_line line)*      line = statement? _? comment?
Each function below is the traversal of ONE `line` node of a given shape (or of an end_of_line node, or the final
dispatch on the root `definition` node); its body calls the REAL visitors of pydsdl._parser._ParseTreeProcessor in the
order the traversal calls them.  Visitors that do not touch the processor / builder state (type and expression
sub-rules, literals) are not listed; their results arrive as parameters (`field_type`, `value`, ...).  The g_* parameters
are ghost state of the specification (the documented comment-attachment rule, per source line); the code never reads them.

This file is read with `ast` by pyvc like the repository sources (module name pydsdl._spec_c03_driver) and is also
importable, so that the same functions run natively on the real classes.
"""


from pydsdl._parser import _ParseTreeProcessor


def begin(statement_stream_processor, strict):
    """parse(): the processor is created on the (fresh) statement stream processor before the traversal starts."""
    return _ParseTreeProcessor(statement_stream_processor, strict=strict)


def line_blank(pr, line_node, g_eol, g_open, g_tag, g_type, g_name, g_value, g_doc, g_line, g_hdr_open, g_hdr, g_count):
    """An empty line (no statement, no blanks, no comment)."""
    pr.visit_line(line_node, ())


def line_comment_only(pr, comment_node, line_node,
                      g_eol, g_open, g_tag, g_type, g_name, g_value, g_doc, g_line, g_hdr_open, g_hdr, g_count):
    """A line that holds only a comment (possibly after blanks)."""
    pr.visit_comment(comment_node, ())
    pr.visit_line(line_node, ())


def line_field(pr, type_has_identifier, type_identifier_node, field_type, name_node, stmt_node, has_comment, comment_node,
               line_node, g_eol, g_open, g_tag, g_type, g_name, g_value, g_doc, g_line, g_hdr_open, g_hdr, g_count):
    """`type name [# comment]`: the identifiers of a versioned type first, then the name, then the statement."""
    if type_has_identifier:
        pr.visit_identifier(type_identifier_node, ())
    name = pr.visit_identifier(name_node, ())
    pr.visit_statement_field(stmt_node, (field_type, None, name))
    if has_comment:
        pr.visit_comment(comment_node, ())
    pr.visit_line(line_node, ())


def line_constant(pr, type_has_identifier, type_identifier_node, constant_type, name_node, expr_has_identifier,
                  expr_identifier_node, value, stmt_node, has_comment, comment_node, line_node,
                  g_eol, g_open, g_tag, g_type, g_name, g_value, g_doc, g_line, g_hdr_open, g_hdr, g_count):
    """`type name = expression [# comment]`."""
    if type_has_identifier:
        pr.visit_identifier(type_identifier_node, ())
    name = pr.visit_identifier(name_node, ())
    if expr_has_identifier:
        pr.visit_identifier(expr_identifier_node, ())
    pr.visit_statement_constant(stmt_node, (constant_type, None, name, None, None, None, value))
    if has_comment:
        pr.visit_comment(comment_node, ())
    pr.visit_line(line_node, ())


def line_padding(pr, void_type, stmt_node, has_comment, comment_node, line_node,
                 g_eol, g_open, g_tag, g_type, g_name, g_value, g_doc, g_line, g_hdr_open, g_hdr, g_count):
    """`voidN [# comment]`."""
    pr.visit_statement_padding_field(stmt_node, (void_type, None))
    if has_comment:
        pr.visit_comment(comment_node, ())
    pr.visit_line(line_node, ())


def line_directive_with_expression(pr, name, name_node, expr_has_identifier, expr_identifier_node, value, stmt_node,
                                   has_comment, comment_node, line_node,
                                   g_eol, g_open, g_tag, g_type, g_name, g_value, g_doc, g_line, g_hdr_open, g_hdr, g_count):
    """`@name expression [# comment]` (name == name_node.text)."""
    pr.visit_identifier(name_node, ())
    if expr_has_identifier:
        pr.visit_identifier(expr_identifier_node, ())
    pr.visit_statement_directive_with_expression(stmt_node, (None, name, None, value))
    if has_comment:
        pr.visit_comment(comment_node, ())
    pr.visit_line(line_node, ())


def line_directive_without_expression(pr, name, name_node, stmt_node, has_comment, comment_node, line_node,
                                      g_eol, g_open, g_tag, g_type, g_name, g_value, g_doc, g_line, g_hdr_open, g_hdr, g_count):
    """`@name [# comment]` (name == name_node.text)."""
    pr.visit_identifier(name_node, ())
    pr.visit_statement_directive_without_expression(stmt_node, (None, name))
    if has_comment:
        pr.visit_comment(comment_node, ())
    pr.visit_line(line_node, ())


def line_service_response_marker(pr, stmt_node, has_comment, comment_node, line_node,
                                 g_eol, g_open, g_tag, g_type, g_name, g_value, g_doc, g_line, g_hdr_open, g_hdr, g_count):
    """`--- [# comment]`."""
    pr.visit_statement_service_response_marker(stmt_node, ())
    if has_comment:
        pr.visit_comment(comment_node, ())
    pr.visit_line(line_node, ())


def end_of_line(pr, node, g_eol, g_open, g_tag, g_type, g_name, g_value, g_doc, g_line, g_hdr_open, g_hdr, g_count):
    pr.visit_end_of_line(node, ())


def end_of_input(pr, definition_node, g_eol, g_open, g_tag, g_type, g_name, g_value, g_doc, g_line, g_hdr_open, g_hdr, g_count):
    """After the last line: the dispatch on the root node `definition` (visit_definition if the class defines it)."""
    method = getattr(pr, "visit_definition", pr.generic_visit)
    method(definition_node, ())
