"""
ASSUMED CONTRACTS, written as code, of what `pydsdl._namespace_reader._read_definitions` calls but cannot see into.
Read with `ast` by pyvc (module pydsdl._spec_reader_model) and INLINED at the call sites inside the functions of
_namespace_reader that are under contract (registration: specs/c10_reader.py).  The `pyvc.ghost` functions are
specification primitives of pyvc/ext_reader.py (each carries its assumption in its docstring); not importable natively.
"""
from pyvc.ghost import file_path_of, cached_type, notify_visitors, handler_reports_under, read_outcome, sorted_enumeration


def read(self, lookup_definitions, definition_visitors, print_output_handler, allow_unregulated_fixed_port_id, *,
         strict=False):
    """ReadableDSDLFile.read as observable by the reader (DSDLDefinition.read: C09; the recursion into dependencies goes
    through DataTypeBuilder.resolve_versioned_data_type, which notifies the visitors it was given before it reads)."""
    handler_reports_under(print_output_handler, self.file_path)       # obligation of the CALLER (C17)
    notify_visitors(self, lookup_definitions, definition_visitors)    # on_definition(referrer, dependency) callbacks
    return read_outcome(self)                                         # any exception, or the composite (then cached)


def file_path(self):
    """DSDLFile.file_path: fixed for the definition object."""
    return file_path_of(self)


def composite_type(self):
    """DSDLFile.composite_type: what `read` cached, None before."""
    return cached_type(self)


def file_sort(file_list):
    """_dsdl.file_sort applied to a set: every member exactly once (ordering: C10 contract of file_sort)."""
    return sorted_enumeration(file_list)
