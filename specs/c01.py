"""
C01 - Bit length set algebra is exact for every composition and every divisor.

Ghost abstraction D : Operator -> set of naturals, defined per class by the *mathematical* definitions of the property
statement (element-wise sums over cartesian products, unions, k-fold multiset sums, rounding up to a multiple of the
alignment).  Interface contract of Operator: min == smin(D), max == smax(D), modulo(d) == { x mod d | x in D },
expand() == D.  Every override is obligated to it assuming only the interface contract of its children
(structural induction over finite immutable operator trees).
"""
import z3
from pyvc.spec import contract, class_spec, inline_ok
from pyvc.values import Int, Bool, IntSet, Opt, SeqOf, ObjOf, MapOf, Obj, SymSet, SymSeq, PyList, PySet, SymMap, PyDict, Const
from pyvc.speclib import AND, OR, NOT, IMPLIES, IFF, ITE, EQ, IS_NONE, VAL, ISINST, FORALL_IDX, LEN, OPT_ALL, smt
from pyvc import speclib
from pyvc import settheory as st
from pyvc.settheory import (modset, padset, sumset, kfold_s, rangefold, singleton, SETEQ, MEM, SMIN, SMAX, WFSET, ALIGNED,
                            pad)

P = ["C01"]
OPS = "pydsdl._bit_length_set._symbolic."
OPERATOR = OPS + "Operator"
NULLARY, PADDING, CONCAT, REPEAT, RANGE, UNION, MEMO = (OPS + n for n in (
    "NullaryOperator", "PaddingOperator", "ConcatenationOperator", "RepetitionOperator", "RangeRepetitionOperator",
    "UnionOperator", "MemoizationOperator"))
BLS = "pydsdl._bit_length_set._bit_length_set.BitLengthSet"
LEAN = ["Sumset.lean", "Pad.lean", "Basic.lean", "Bounds.lean"]


# ------------------------------------------------------------------------------------------------ abstraction D
def _native_children(xs):
    return [D(c) for c in xs]


def native_nsum(sets):
    out = frozenset([0])
    for s in sets:
        out = frozenset(x + y for x in out for y in s)
    return out


def D(op):
    """The mathematical set denoted by an Operator / BitLengthSet (ghost in SMT, brute force natively)."""
    if smt():
        if isinstance(op, Obj):
            name = op.cls.name
            if name == "BitLengthSet":
                return D(op._op)
            if op.fields is None and not op.exact:
                return SymSet(st.D_uf(op.ref))
            if op.fields is None:
                # exact class but abstract fields
                pass
            if name == "NullaryOperator":
                v = op._value
                return v if isinstance(v, SymSet) else speclib.CTX.engine.to_symset(speclib.CTX, v)
            if name == "PaddingOperator":
                return padset(D(op._child), op._padding)
            if name == "ConcatenationOperator":
                ch = op._children
                return SymSet(st.nsum(st.dmap_f(ch.arr), ch.length))
            if name == "RepetitionOperator":
                return kfold_s(D(op._child), op._k)
            if name == "RangeRepetitionOperator":
                return rangefold(D(op._child), op._k_max)
            if name == "UnionOperator":
                ch = op._children
                return SymSet(st.unions_f(st.dmap_f(ch.arr), ch.length))
            if name == "MemoizationOperator":
                return D(op._child)
            return SymSet(st.D_uf(op.ref))
        raise TypeError("D of %r" % (op,))
    return NSet.of(op)


class NSet:
    """Native (CPython) reading of the mathematical set denoted by an operator tree: exact answers for min, max and
    residues even when the set is far too large to enumerate (repetition counts up to 2**63): residues of k-fold sums are
    computed by square-and-multiply in the monoid of subsets of Z/d under set addition (no count reduction lemma is used);
    'at most K' residues by iterating U_{j+1} = {0} u (U_j + A) until it is stable (at most d steps)."""

    def __init__(self, kind, *args):
        self.kind, self.args = kind, args

    @staticmethod
    def of(op):
        name = type(op).__name__
        if name == "BitLengthSet":
            return NSet.of(op._op)
        if name == "NullaryOperator":
            return NSet("leaf", frozenset(op._value))
        if name == "PaddingOperator":
            return NSet("pad", NSet.of(op._child), op._padding)
        if name == "ConcatenationOperator":
            return NSet("cat", [NSet.of(c) for c in op._children])
        if name == "RepetitionOperator":
            return NSet("rep", NSet.of(op._child), op._k)
        if name == "RangeRepetitionOperator":
            return NSet("rng", NSet.of(op._child), op._k_max)
        if name == "UnionOperator":
            return NSet("uni", [NSet.of(c) for c in op._children])
        if name == "MemoizationOperator":
            return NSet.of(op._child)
        raise TypeError(name)

    # -- exact analytic answers
    def min(self):
        k, a = self.kind, self.args
        if k == "leaf":
            return min(a[0])
        if k == "pad":
            return st.native_pad(a[1], a[0].min())
        if k == "cat":
            return sum(c.min() for c in a[0])
        if k == "rep":
            return a[0].min() * a[1]
        if k == "rng":
            return 0
        if k == "uni":
            return min(c.min() for c in a[0])
        if k == "mod":
            return min(self.elements())
        return min(self.elements())

    def max(self):
        k, a = self.kind, self.args
        if k == "leaf":
            return max(a[0])
        if k == "pad":
            return st.native_pad(a[1], a[0].max())
        if k == "cat":
            return sum(c.max() for c in a[0])
        if k == "rep":
            return a[0].max() * a[1]
        if k == "rng":
            return a[0].max() * a[1]
        if k == "uni":
            return max(c.max() for c in a[0])
        return max(self.elements())

    def residues(self, d):
        import math

        k, a = self.kind, self.args
        if k == "leaf":
            return frozenset(x % d for x in a[0])
        if k == "set":
            return frozenset(x % d for x in a[0])
        if k == "pad":
            # pad(r, x) mod d depends on x mod lcm(r, d) only (Lean Pad.pad_mod)
            m = math.lcm(a[1], d)
            return frozenset(st.native_pad(a[1], x) % d for x in a[0].residues(m))
        if k == "cat":
            out = frozenset([0])
            for c in a[0]:
                r = c.residues(d)
                out = frozenset((x + y) % d for x in out for y in r)
            return out
        if k == "uni":
            return frozenset().union(*[c.residues(d) for c in a[0]])
        if k == "rep":
            base = a[0].residues(d)
            out = frozenset([0])
            n = a[1]
            while n > 0:
                if n & 1:
                    out = frozenset((x + y) % d for x in out for y in base)
                base = frozenset((x + y) % d for x in base for y in base)
                n >>= 1
            return out
        if k == "rng":
            base = a[0].residues(d)
            cur = frozenset([0])
            for _ in range(min(a[1], d + 1)):
                nxt = cur | frozenset((x + y) % d for x in cur for y in base)
                if nxt == cur:
                    break
                cur = nxt
            return cur
        if k == "mod":
            return frozenset(x % d for x in a[0].residues(a[1]))
        raise TypeError(k)

    def elements(self):
        k, a = self.kind, self.args
        if k in ("leaf", "set"):
            return frozenset(a[0])
        if k == "pad":
            return frozenset(st.native_pad(a[1], x) for x in a[0].elements())
        if k == "cat":
            return native_nsum([c.elements() for c in a[0]])
        if k == "rep":
            if a[1] > 40:
                raise OverflowError("set too large to enumerate")
            return st.native_kfold(a[0].elements(), a[1])
        if k == "rng":
            if a[1] > 40:
                raise OverflowError("set too large to enumerate")
            return st.rangefold(a[0].elements(), a[1])
        if k == "uni":
            return frozenset().union(*[c.elements() for c in a[0]])
        if k == "mod":
            return a[0].residues(a[1])
        raise TypeError(k)

    def __iter__(self):
        return iter(self.elements())

    def __len__(self):
        return len(self.elements())

    def __eq__(self, other):
        return self.elements() == (other.elements() if isinstance(other, NSet) else frozenset(other))

    def __hash__(self):
        return 0


def DVAL(v):
    """The set denoted by an argument of the public API: a BitLengthSet, an Operator, an int or an iterable of ints."""
    if smt():
        if isinstance(v, Obj):
            return D(v)
        if isinstance(v, SymSet):
            return v
        if isinstance(v, (PySet, PyList, list, tuple, set, frozenset)):
            items = v.items if isinstance(v, (PySet, PyList)) else list(v)
            return speclib.CTX.engine.to_symset(speclib.CTX, items)
        return singleton(v)
    if hasattr(v, "_op") or type(v).__name__.endswith("Operator"):
        return D(v)
    if isinstance(v, int):
        return NSet("set", frozenset([v]))
    return NSet("set", frozenset(v))


def DSEQ_NSUM(seq):
    """n-ary sum of the sets denoted by the elements of a list."""
    if smt():
        if isinstance(seq, SymSeq):
            return SymSet(st.nsum(_dseq(seq), seq.length))
        items = seq.items if isinstance(seq, PyList) else list(seq)
        s = st.seq_of_sets(speclib.CTX, [DVAL(x) for x in items])
        return SymSet(st.nsum(s.arr, s.length))
    return NSet("cat", [DVAL(x) for x in seq])


def DSEQ_UNION(seq):
    if smt():
        if isinstance(seq, SymSeq):
            return SymSet(st.unions_f(_dseq(seq), seq.length))
        items = seq.items if isinstance(seq, PyList) else list(seq)
        s = st.seq_of_sets(speclib.CTX, [DVAL(x) for x in items])
        return SymSet(st.unions_f(s.arr, s.length))
    return NSet("uni", [DVAL(x) for x in seq])


def _dseq(seq: SymSeq):
    """Array of the sets denoted by the elements of a symbolic sequence of objects."""
    ctx = speclib.CTX
    cls = seq.kind.clsname.split(".")[-1] if hasattr(seq.kind, "clsname") else ""
    if cls == "BitLengthSet":
        return st.dmap_f(st.opsmap_f(seq.arr))  # a named map instead of a lambda: instantiable by E-matching
    return st.dmap_f(seq.arr)


def ALL_WF(seq):
    """every element of a list denotes a non-empty finite set of naturals"""
    if smt():
        if isinstance(seq, SymSeq):
            return FORALL_IDX(seq, lambda i, x: WFSET(DVAL(x)))
        items = seq.items if isinstance(seq, PyList) else list(seq)
        return AND(*[WFSET(DVAL(x)) for x in items])
    return all(WFSET(DVAL(x)) for x in seq)


# ------------------------------------------------------------------------------------------------ class specs
@class_spec(OPERATOR)
class _OperatorSpec:
    fields = {}


@class_spec(NULLARY)
class _NullarySpec:
    fields = dict(_value=IntSet)

    def invariant(self):
        return {"wf": WFSET(D(self))}


@class_spec(PADDING)
class _PaddingSpec:
    fields = dict(_child=ObjOf(OPERATOR), _padding=Int)

    def invariant(self):
        return {"alignment-positive": self._padding >= 1, "wf": WFSET(D(self))}


@class_spec(CONCAT)
class _ConcatSpec:
    fields = dict(_children=SeqOf(ObjOf(OPERATOR)))

    def invariant(self):
        return {"non-empty-operands": LEN(self._children) >= 1, "wf": WFSET(D(self))}


@class_spec(REPEAT)
class _RepeatSpec:
    fields = dict(_child=ObjOf(OPERATOR), _k=Int)

    def invariant(self):
        return {"count-non-negative": self._k >= 0, "wf": WFSET(D(self))}


@class_spec(RANGE)
class _RangeSpec:
    fields = dict(_child=ObjOf(OPERATOR), _k_max=Int)

    def invariant(self):
        return {"count-non-negative": self._k_max >= 0, "wf": WFSET(D(self))}


@class_spec(UNION)
class _UnionSpec:
    fields = dict(_children=SeqOf(ObjOf(OPERATOR)))

    def invariant(self):
        return {"non-empty-operands": LEN(self._children) >= 1, "wf": WFSET(D(self))}


def _map_all(m, body):
    """forall (k, v) in a dict: body(k, v)"""
    if smt():
        if isinstance(m, SymMap):
            k = z3.FreshConst(m.kkind.sort(), "key")
            return z3.ForAll([k], z3.Implies(z3.Select(m.has, k), speclib._b(body(k, m.vkind.wrap(speclib.CTX, z3.Select(m.val, k))))),
                             patterns=[z3.Select(m.has, k)])
        return AND(*[body(k, v) for k, v in m.items.items()])
    return all(body(k, v) for k, v in m.items())


@class_spec(MEMO)
class _MemoSpec:
    fields = dict(_child=ObjOf(OPERATOR), _min=Opt(Int), _max=Opt(Int), _modula=MapOf(Int, IntSet), _expansion=Opt(IntSet))
    mutable = ["_min", "_max", "_modula", "_expansion"]

    def invariant(self):
        d = D(self._child)
        return {
            "memo-min": OPT_ALL(self._min, lambda v: v == SMIN(d)),
            "memo-max": OPT_ALL(self._max, lambda v: v == SMAX(d)),
            "memo-expansion": OPT_ALL(self._expansion, lambda v: SETEQ(v, d)),
            "memo-modula": _map_all(self._modula, lambda k, v: AND(k >= 1, SETEQ(v, modset(d, k)))),
        }


@class_spec(BLS)
class _BlsSpec:
    fields = dict(_op=ObjOf(OPERATOR))


def MEMO_CONSISTENT(op):
    """Native reading of "operands are never changed" for the memo caches: after a query every MemoizationOperator reachable
    from the receiver still holds only answers of its child's mathematical set (a query that hands out a cached set and lets
    somebody merge into it corrupts the OPERAND, while its own answer stays right).  The SMT reading of the same fact is
    the class invariant of MemoizationOperator together with the frame / freshness obligations of every method."""
    seen, stack = set(), [op]
    while stack:
        o = stack.pop()
        if id(o) in seen:
            continue
        seen.add(id(o))
        name = type(o).__name__
        if name == "BitLengthSet":
            stack.append(o._op)
            continue
        if name == "MemoizationOperator":
            d = NSet.of(o._child)
            if o._min is not None and o._min != d.min():
                return False
            if o._max is not None and o._max != d.max():
                return False
            for k, v in o._modula.items():
                if frozenset(v) != frozenset(d.residues(k)):
                    return False
            if o._expansion is not None and frozenset(o._expansion) != frozenset(d.elements()):
                return False
        if hasattr(o, "_child"):
            stack.append(o._child)
        for c in getattr(o, "_children", ()):
            stack.append(c)
    return True


def _native_only(d, label, fn):
    if not smt():
        d[label] = fn()
    return d


# ------------------------------------------------------------------------------------------------ interface contracts
def _mk_iface(cls_q, verify):
    """The four query contracts, identical for the interface and for every override (behavioural subtyping)."""

    @contract(cls_q + ".modulo", props=P + ["C16"])
    class _Modulo:
        params = dict(divisor=Int)
        returns = IntSet

        def pre(s):
            return {"divisor-positive": s.divisor >= 1}

        def post(s):
            return _native_only({"residues-exact": SETEQ(s.result, modset(D(s.self), s.divisor))},
                                "operand-caches-still-consistent", lambda: MEMO_CONSISTENT(s.self))

    @contract(cls_q + ".min", props=P + ["C16"])
    class _Min:
        returns = Int

        def post(s):
            return {"min-exact": s.result == SMIN(D(s.self))}

    @contract(cls_q + ".max", props=P + ["C16"])
    class _Max:
        returns = Int

        def post(s):
            return {"max-exact": s.result == SMAX(D(s.self))}

    @contract(cls_q + ".expand", props=P)
    class _Expand:
        returns = IntSet

        def post(s):
            return _native_only({"expansion-exact": SETEQ(s.result, D(s.self))},
                                "operand-caches-still-consistent", lambda: MEMO_CONSISTENT(s.self))

    from pyvc.spec import REG

    for m in ("modulo", "min", "max", "expand"):
        c = REG.contracts[cls_q + "." + m]
        c.verify = verify
        if not verify:
            c.assumed_reason = "interface contract of Operator; every concrete override is obligated to the same clauses"
    if cls_q == MEMO:
        REG.contracts[cls_q + ".modulo"].modifies = ["_modula"]
        REG.contracts[cls_q + ".min"].modifies = ["_min"]
        REG.contracts[cls_q + ".max"].modifies = ["_max"]
        REG.contracts[cls_q + ".expand"].modifies = ["_expansion"]
    return _Modulo, _Min, _Max, _Expand


_mk_iface(OPERATOR, False)
for _c in (NULLARY, PADDING, CONCAT, REPEAT, RANGE, UNION, MEMO):
    _mk_iface(_c, True)


@contract(PADDING + "._pad", props=P)
class _Pad:
    params = dict(x=Int)
    returns = Int

    def post(s):
        return {"round-up": s.result == pad(s.self._padding, s.x)}


@contract(OPS + "least_common_multiple", props=P)
class _Lcm:
    params = dict(a=Int, b=Int)
    returns = Int

    def pre(s):
        return {"positive": AND(s.a >= 1, s.b >= 1)}

    def post(s):
        return {"lcm": s.result == st.LCM(s.a, s.b)}


@contract(OPS + "validate_numerically", props=P)
class _Validate:
    """The code's own self check: its assertions follow from the interface contract (they become obligations)."""
    params = dict(op=ObjOf(OPERATOR))


# ------------------------------------------------------------------------------------------------ constructors
def _same(a, b):
    return a.ref == b.ref if smt() else a is b


@contract(NULLARY + ".__init__", props=P)
class _NullaryInit:
    params = dict(values=IntSet)

    def pre(s):
        # domain of the property: finite sets of non-negative integers
        return {"non-negative-ints": OR(NOT(_nonempty(s.values)), lambda: WFSET(DVAL(s.values))) if smt() else
                all(isinstance(x, int) and x >= 0 for x in s.values)}

    raises = {"ValueError": lambda s: NOT(_nonempty(s.values))}

    def post(s):
        return {"value": SETEQ(D(s.self), DVAL(s.values))}


def _nonempty(v):
    if smt():
        if isinstance(v, SymSet):
            return speclib.CTX.engine.truth(speclib.CTX, v)
        items = v.items if isinstance(v, (PySet, PyList)) else list(v)
        return len(items) > 0
    return len(list(v)) > 0


@contract(PADDING + ".__init__", props=P)
class _PaddingInit:
    params = dict(child=ObjOf(OPERATOR), alignment=Int)
    raises = {"ValueError": lambda s: s.alignment < 1}

    def post(s):
        return {"fields": AND(_same(s.self._child, s.child), s.self._padding == s.alignment)}


@contract(CONCAT + ".__init__", props=P)
class _ConcatInit:
    params = dict(children=SeqOf(ObjOf(OPERATOR)))
    raises = {"ValueError": lambda s: LEN(s.children) == 0}

    def post(s):
        return {"fields": _seq_same(s.self._children, s.children)}


@contract(UNION + ".__init__", props=P)
class _UnionInit:
    params = dict(children=SeqOf(ObjOf(OPERATOR)))
    raises = {"ValueError": lambda s: LEN(s.children) == 0}

    def post(s):
        return {"fields": _seq_same(s.self._children, s.children)}


def _seq_same(a, b):
    if smt():
        return AND(a.length == b.length, FORALL_IDX(a, lambda i, x: x.ref == z3.Select(b.arr, i)))
    return len(a) == len(b) and all(x is y for x, y in zip(a, b))


@contract(REPEAT + ".__init__", props=P)
class _RepeatInit:
    params = dict(child=ObjOf(OPERATOR), k=Int)

    def pre(s):
        return {"count-non-negative": s.k >= 0}  # domain of the property (any repetition count k >= 0)

    def post(s):
        return {"fields": AND(_same(s.self._child, s.child), s.self._k == s.k)}


@contract(RANGE + ".__init__", props=P)
class _RangeInit:
    params = dict(child=ObjOf(OPERATOR), k_max=Int)

    def pre(s):
        return {"count-non-negative": s.k_max >= 0}

    def post(s):
        return {"fields": AND(_same(s.self._child, s.child), s.self._k_max == s.k_max)}


@contract(MEMO + ".__init__", props=P)
class _MemoInit:
    params = dict(child=ObjOf(OPERATOR))

    def post(s):
        return {"fields": _same(s.self._child, s.child)}


# ------------------------------------------------------------------------------------------------ BitLengthSet
@contract(BLS + ".__init__", props=P)
class _BlsInit:
    instances = lambda: [{"value": ObjOf(BLS)}, {"value": ObjOf(OPERATOR)}, {"value": Int}, {"value": IntSet}]

    def pre(s):
        return {"denotes-wf-set": WFSET(DVAL(s.value))}

    def post(s):
        return {"denotes-argument": SETEQ(D(s.self), DVAL(s.value))}


@contract(BLS + ".min", props=P + ["C16"])
class _BlsMin:
    returns = Int

    def post(s):
        return {"min-exact": s.result == SMIN(D(s.self))}


@contract(BLS + ".max", props=P + ["C16"])
class _BlsMax:
    returns = Int

    def post(s):
        return {"max-exact": s.result == SMAX(D(s.self))}


@contract(BLS + ".fixed_length", props=P + ["C16"])
class _BlsFixed:
    returns = Bool

    def post(s):
        return {"fixed-iff-min-equals-max": IFF(s.result, SMIN(D(s.self)) == SMAX(D(s.self)))}


@contract(BLS + ".__mod__", props=P + ["C16"])
class _BlsMod:
    params = dict(divisor=Int)
    returns = ObjOf(BLS)

    def pre(s):
        return {"divisor-positive": s.divisor >= 1}

    def post(s):
        return {"residues-exact": SETEQ(D(s.result), modset(D(s.self), s.divisor))}


@contract(BLS + ".is_aligned_at", props=P + ["C16"])
class _BlsAligned:
    params = dict(bit_length=Int)
    returns = Bool

    def pre(s):
        return {"divisor-positive": s.bit_length >= 1}

    def post(s):
        return {"aligned-iff-all-multiples": IFF(s.result, ALIGNED(D(s.self), s.bit_length))}


@contract(BLS + ".is_aligned_at_byte", props=P + ["C16"])
class _BlsAlignedByte:
    returns = Bool

    def post(s):
        return {"aligned-iff-all-multiples-of-8": IFF(s.result, ALIGNED(D(s.self), 8))}


@contract(BLS + ".pad_to_alignment", props=P + ["C16"])
class _BlsPad:
    params = dict(bit_length=Int)
    returns = ObjOf(BLS)
    raises = {"ValueError": lambda s: s.bit_length < 1}

    def post(s):
        return {"padded": SETEQ(D(s.result), padset(D(s.self), s.bit_length))}


@contract(BLS + ".repeat", props=P + ["C16"])
class _BlsRepeat:
    params = dict(k=Int)
    returns = ObjOf(BLS)

    def pre(s):
        return {"count-non-negative": s.k >= 0}

    def post(s):
        return {"k-fold": SETEQ(D(s.result), kfold_s(D(s.self), s.k))}


@contract(BLS + ".repeat_range", props=P + ["C16"])
class _BlsRepeatRange:
    params = dict(k_max=Int)
    returns = ObjOf(BLS)

    def pre(s):
        return {"count-non-negative": s.k_max >= 0}

    def post(s):
        return {"up-to-k-fold": SETEQ(D(s.result), rangefold(D(s.self), s.k_max))}


@contract(BLS + ".concatenate", props=P + ["C16"])
class _BlsConcat:
    params = dict(sets=SeqOf(ObjOf(BLS)))
    returns = ObjOf(BLS)

    def pre(s):
        return {"operands-wf": ALL_WF(s.sets)}

    raises = {"ValueError": lambda s: LEN(s.sets) == 0}

    def post(s):
        return {"cartesian-sums": SETEQ(D(s.result), DSEQ_NSUM(s.sets))}


@contract(BLS + ".unite", props=P + ["C16"])
class _BlsUnite:
    params = dict(sets=SeqOf(ObjOf(BLS)))
    returns = ObjOf(BLS)

    def pre(s):
        return {"operands-wf": ALL_WF(s.sets)}

    raises = {"ValueError": lambda s: LEN(s.sets) == 0}

    def post(s):
        return {"union": SETEQ(D(s.result), DSEQ_UNION(s.sets))}


def _binary(name, fn, order):
    @contract(BLS + "." + name, props=P + ["C16"])
    class _Bin:
        instances = lambda: [{"other": ObjOf(BLS)}, {"other": Int}, {"other": IntSet}]
        returns = ObjOf(BLS)

        def pre(s):
            return {"operand-wf": WFSET(DVAL(s.other))}

        def post(s):
            a, b = (D(s.self), DVAL(s.other)) if order else (DVAL(s.other), D(s.self))
            return {"binary": SETEQ(D(s.result), fn(a, b))}

    return _Bin


def _union2(a, b):
    if smt():
        x = z3.FreshConst(z3.IntSort(), "x")
        return SymSet(z3.Lambda([x], z3.Or(z3.Select(st._t(a), x), z3.Select(st._t(b), x))))
    return NSet("uni", [a, b])


_binary("__add__", sumset, True)
_binary("__radd__", sumset, False)
_binary("__or__", _union2, True)
_binary("__ror__", _union2, False)


@contract(BLS + ".__iter__", props=P)
class _BlsIter:
    returns = IntSet

    def post(s):
        return {"iterates-exact-set": SETEQ(s.result, D(s.self))}


@contract(BLS + ".__len__", props=P)
class _BlsLen:
    returns = Int

    def post(s):
        return {"cardinality": s.result == CARD(D(s.self))}


def CARD(A):
    if smt():
        return speclib.CTX.engine.uf("card", st.S, z3.IntSort())(st._t(A))
    return len(A.elements()) if hasattr(A, "elements") else len(A)


NOT_COVERED = ["the deprecated aliases elementwise_sum_*; __str__/__repr__; the wall-clock assertion in "
               "MemoizationOperator.expand (depends on time.monotonic and an environment variable)"]
EXPLANATION = ("Each Operator override and each BitLengthSet operation is proved against the mathematical set D denoted by "
               "the object; the reductions of repetition counts modulo the divisor rest on Lean-proved lemmas "
               "(sumset periodicity / stabilisation), all other steps are first-order consequences of the set definitions.")


# ------------------------------------------------------------------------------------------------ native harness
from pyvc.native import NativeSuite

NATIVE = NativeSuite()
NATIVE_BUDGET = {"quick": 60, "thorough": 1500}


allow_big = [False]  # huge counts only for queries that do not expand the set


def _gen_tree(rng, depth, root=None):
    # memo-wrapped operands as well (BitLengthSet wraps every composition in a MemoizationOperator)
    kinds = ["leaf", "pad", "cat", "rep", "rng", "uni", "memo", "memo"]
    k = root or (rng.choice(kinds) if depth > 0 else "leaf")
    if k == "leaf" or depth <= 0 and root is None:
        if rng.random() < 0.3:
            return ["leaf", sorted(rng.sample([0, 8, 16, 24, 32, 40, 48, 56, 64, 72, 80, 96], rng.choice([2, 3])))]
        return ["leaf", sorted(rng.sample(range(0, 13), rng.choice([1, 1, 2, 3])))]
    sub = lambda: _gen_tree(rng, depth - 1)
    if k == "pad":
        return ["pad", rng.choice([1, 2, 3, 4, 8]), sub()]
    if k == "cat":
        return ["cat", [sub() for _ in range(rng.choice([1, 2, 3]))]]
    big = [2 ** 53 + 2, 2 ** 60 + 3, 2 ** 63, 2 ** 63 - 1, 1000, 257, 64, 33]
    if k == "rep":
        return ["rep", rng.choice([0, 1, 2, 3, 5] if (rng.random() < 0.7 or not allow_big[0]) else big), sub()]
    if k == "rng":
        return ["rng", rng.choice([0, 1, 2, 3, 4] if (rng.random() < 0.7 or not allow_big[0]) else big), sub()]
    if k == "uni":
        return ["uni", [sub() for _ in range(rng.choice([1, 2, 3]))]]
    if k == "memo":
        return ["memo", sub()]
    raise ValueError(k)


def _build_tree(t):
    from pydsdl._bit_length_set import _symbolic as Y

    k = t[0]
    if k == "leaf":
        return Y.NullaryOperator(t[1])
    if k == "pad":
        return Y.PaddingOperator(_build_tree(t[2]), t[1])
    if k == "cat":
        return Y.ConcatenationOperator([_build_tree(x) for x in t[1]])
    if k == "rep":
        return Y.RepetitionOperator(_build_tree(t[2]), t[1])
    if k == "rng":
        return Y.RangeRepetitionOperator(_build_tree(t[2]), t[1])
    if k == "uni":
        return Y.UnionOperator([_build_tree(x) for x in t[1]])
    if k == "memo":
        return Y.MemoizationOperator(_build_tree(t[1]))
    raise ValueError(k)


def _op_case(root, method):
    def gen(rng, i):
        allow_big[0] = method in ("modulo", "min", "max")
        try:
            return {"tree": _gen_tree(rng, 2, root), "d": rng.choice([1, 2, 3, 4, 5, 7, 8, 12, 16, 32, 33, 64, 65])}
        finally:
            allow_big[0] = False

    def build(desc):
        op = _build_tree(desc["tree"])
        if method == "modulo":
            return (lambda: op.modulo(desc["d"])), {"self": op, "divisor": desc["d"]}
        if method in ("min", "max"):
            return (lambda: getattr(op, method)), {"self": op}
        return (lambda: op.expand()), {"self": op}

    return gen, build


for _root, _cls in (("leaf", NULLARY), ("pad", PADDING), ("cat", CONCAT), ("rep", REPEAT), ("rng", RANGE), ("uni", UNION),
                    ("memo", MEMO)):
    for _m in ("modulo", "min", "max", "expand"):
        _g, _b = _op_case(_root, _m)
        NATIVE.add(_cls + "." + _m, _g, _b)


def _bls_case(method):
    def gen(rng, i):
        allow_big[0] = method in ("__mod__", "is_aligned_at", "is_aligned_at_byte", "min", "max", "fixed_length")
        try:
            d = {"a": _gen_tree(rng, 2), "b": _gen_tree(rng, 1), "n": rng.choice([1, 2, 3, 4, 5, 8, 16, 32, 48]),
                 "k": rng.choice([0, 1, 2, 3]), "form": rng.choice(["bls", "int", "set"])}
            if i % 3 == 0 and method in ("concatenate", "unite", "__or__", "__ror__", "__add__", "__radd__"):
                # near-equal operands: same min, max and residues modulo 32, different interior elements
                lo = rng.choice([0, 8, 3])
                mid = rng.choice([16, 5, 24])
                hi = lo + rng.choice([64, 96, 128])
                d["a"] = ["leaf", [lo, lo + mid, hi]]
                d["b"] = ["leaf", [lo, lo + mid + 32 * rng.choice([1, 1, 2]), hi]]
                d["form"] = rng.choice(["bls", "set"])
            return d
        finally:
            allow_big[0] = False

    def build(desc):
        from pydsdl import BitLengthSet

        a = BitLengthSet(_build_tree(desc["a"]))
        if desc["form"] == "bls":
            other = BitLengthSet(_build_tree(desc["b"]))
        elif desc["form"] == "int":
            other = desc["n"]
        else:
            other = set(D(_build_tree(desc["b"])).elements())
        m = method
        if m == "__mod__":
            return (lambda: a % desc["n"]), {"self": a, "divisor": desc["n"]}
        if m == "is_aligned_at":
            return (lambda: a.is_aligned_at(desc["n"])), {"self": a, "bit_length": desc["n"]}
        if m == "is_aligned_at_byte":
            return (lambda: a.is_aligned_at_byte()), {"self": a}
        if m in ("min", "max", "fixed_length"):
            return (lambda: getattr(a, m)), {"self": a}
        if m == "pad_to_alignment":
            return (lambda: a.pad_to_alignment(desc["n"])), {"self": a, "bit_length": desc["n"]}
        if m == "repeat":
            return (lambda: a.repeat(desc["k"])), {"self": a, "k": desc["k"]}
        if m == "repeat_range":
            return (lambda: a.repeat_range(desc["k"])), {"self": a, "k_max": desc["k"]}
        if m in ("__add__", "__radd__", "__or__", "__ror__"):
            return (lambda: getattr(a, m)(other)), {"self": a, "other": other}
        if m in ("concatenate", "unite"):
            sets = [a, other]
            return (lambda: getattr(BitLengthSet, m)(sets)), {"sets": sets}
        if m == "__iter__":
            return (lambda: frozenset(iter(a))), {"self": a}
        if m == "__len__":
            return (lambda: len(a)), {"self": a}
        raise ValueError(m)

    return gen, build


for _m in ("__mod__", "is_aligned_at", "is_aligned_at_byte", "min", "max", "fixed_length", "pad_to_alignment", "repeat",
           "repeat_range", "__add__", "__radd__", "__or__", "__ror__", "concatenate", "unite", "__iter__", "__len__"):
    _g, _b = _bls_case(_m)
    NATIVE.add(BLS + "." + _m, _g, _b)


# effect obligations (AST, complete for what they state): no memoising decorator, no module-level state - see specs/common.py
from .common import no_hidden_state_check as _no_hidden_state_check  # noqa: E402
EXTRA_CHECKS = list(globals().get("EXTRA_CHECKS", [])) + [_no_hidden_state_check(
    ["pydsdl._bit_length_set._symbolic", "pydsdl._bit_length_set._bit_length_set"], "the bit length set operators and BitLengthSet")]
