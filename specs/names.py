"""
The Specification's name rule, written independently of the code (shared by C05 and C15):

    a name (attribute name, type short name, namespace component) is valid iff it matches [A-Za-z_][A-Za-z0-9_]*
    and, compared case-insensitively, is none of the reserved words / patterns.

SMT reading: regular-expression membership of the whole string (case-insensitivity is spelled out as character classes
[tT][rR][uU][eE]; the code instead lower-cases the name).  Native reading: Python `re` with re.ASCII (without re.ASCII,
IGNORECASE folds U+212A KELVIN SIGN onto k).
"""
import re
import z3
from pyvc.speclib import smt

RESERVED_WORDS = ["truncated", "saturated", "true", "false", "bool", "optional", "aligned", "const", "struct", "super",
                  "template", "enum", "self", "and", "or", "not", "auto", "type", "con", "prn", "aux", "nul"]
# pattern syntax: literal characters, D = one decimal digit, '*' / '+' postfix on D, '?' postfix on a literal, '.' any
RESERVED_PATTERNS = ["voidD*", "u?intD*", "u?qD+_D+", "floatD*", "comD", "lptD", "_.*_"]

_NATIVE = re.compile(
    r"(?:%s)\Z" % "|".join(RESERVED_WORDS + [p.replace("D", "[0-9]").replace(".*", "[\\s\\S]*") for p in RESERVED_PATTERNS]),
    re.IGNORECASE | re.ASCII)
_IDENT_NATIVE = re.compile(r"[A-Za-z_][A-Za-z0-9_]*\Z", re.ASCII)


def _rng(a, b):
    return z3.Range(z3.StringVal(a), z3.StringVal(b))


def _ci(ch):
    if ch.isalpha():
        return z3.Union(z3.Re(z3.StringVal(ch.lower())), z3.Re(z3.StringVal(ch.upper())))
    return z3.Re(z3.StringVal(ch))


def _word(w):
    parts = [_ci(c) for c in w]
    return z3.Concat(*parts) if len(parts) > 1 else parts[0]


def _pattern(p):
    digit = _rng("0", "9")
    anyc = z3.AllChar(z3.ReSort(z3.StringSort()))
    items = []
    for ch in p:
        if ch == "*":
            items[-1] = z3.Star(items[-1])
        elif ch == "+":
            items[-1] = z3.Plus(items[-1])
        elif ch == "?":
            items[-1] = z3.Option(items[-1])
        elif ch == "D":
            items.append(digit)
        elif ch == ".":
            items.append(anyc)
        else:
            items.append(_ci(ch))
    return z3.Concat(*items) if len(items) > 1 else items[0]


_CACHE = {}


def IDENT_RE():
    if "ident" not in _CACHE:
        first = z3.Union(_rng("a", "z"), _rng("A", "Z"), z3.Re(z3.StringVal("_")))
        cont = z3.Union(_rng("a", "z"), _rng("A", "Z"), _rng("0", "9"), z3.Re(z3.StringVal("_")))
        _CACHE["ident"] = z3.Concat(first, z3.Star(cont))
    return _CACHE["ident"]


def RESERVED_RE():
    if "reserved" not in _CACHE:
        _CACHE["reserved"] = z3.Union(*([_word(w) for w in RESERVED_WORDS] + [_pattern(p) for p in RESERVED_PATTERNS]))
    return _CACHE["reserved"]


def IS_IDENTIFIER(name):
    """name matches [A-Za-z_][A-Za-z0-9_]*"""
    if smt():
        from pyvc.values import Str

        return z3.InRe(Str.unwrap(name), IDENT_RE())
    return _IDENT_NATIVE.match(name) is not None


def IS_RESERVED(name):
    """name is, case-insensitively, one of the reserved words / patterns"""
    if smt():
        from pyvc.values import Str

        return z3.InRe(Str.unwrap(name), RESERVED_RE())
    return _NATIVE.match(name) is not None


def VALID_NAME_RULE(name):
    """The rule itself: an identifier that is not reserved."""
    if smt():
        return z3.And(IS_IDENTIFIER(name), z3.Not(IS_RESERVED(name)))
    return IS_IDENTIFIER(name) and not IS_RESERVED(name)


def VALID_NAME(name):
    """Ghost predicate `valid-name(s)`, DEFINED as VALID_NAME_RULE(s).  The defining equation is used where the rule itself
    is checked (the body of check_name: `definitions` of its contract); every other contract talks about names only through
    this predicate, so that its obligations contain no regular expressions (z3 otherwise spends its time in the string
    solver on propositionally trivial queries)."""
    if smt():
        from pyvc import speclib
        from pyvc.values import Str

        uf = speclib.CTX.engine.uf("ghost!valid-name", z3.StringSort(), z3.BoolSort())
        return uf(Str.unwrap(name))
    return VALID_NAME_RULE(name)


# ------------------------------------------------------------------------------------------------ parts of a full name
# One definition of the name accessors as functions of the *full name* (split at '.'), shared by
#   specs/c05.py  (CompositeType.name_components / short_name / root_namespace / full_namespace - bodies verified),
#   specs/c15.py  (DSDLDefinition.name_components / short_name / root_namespace / full_namespace - bodies verified),
#   specs/c09.py  (interface contracts of the abstract DSDLFile accessors; "a name without dots is taken relative to the
#                  referring definition's own namespace" is stated over NAMESPACE_OF).
def NAME_PARTS(name):
    """the components of a full name separated by '.'  (the library model of str.split on one character)"""
    if smt():
        from pyvc import speclib

        if isinstance(name, str):
            return name.split(".")
        return speclib.CTX.engine.lib.split_seq(speclib.CTX, name, ".")
    return name.split(".")


def _at(seq, i):
    from pyvc.speclib import AT

    return AT(seq, i)


def _len(seq):
    from pyvc.speclib import LEN

    return LEN(seq)


def ROOT_NAMESPACE_OF(name):
    """the root namespace: the first component of the full name"""
    return _at(NAME_PARTS(name), 0) if smt() else name.split(".")[0]


def SHORT_NAME_OF(name):
    """the short name: the last component of the full name"""
    if smt():
        c = NAME_PARTS(name)
        return _at(c, _len(c) - 1)
    return name.split(".")[-1]


def IS_NAMESPACE_OF(ns, name):
    """`ns` is the full namespace of `name`: its components are all but the last component of the name (for a name with at
    least two components) - the relation that the bodies of the `full_namespace` accessors are proved to establish"""
    if smt():
        from pyvc.speclib import AND, IMPLIES, FORALL_IDX

        c, r = NAME_PARTS(name), NAME_PARTS(ns)
        return IMPLIES(_len(c) >= 2, lambda: AND(_len(r) == _len(c) - 1, FORALL_IDX(r, lambda i, x: x == _at(c, i))))
    parts = name.split(".")
    return len(parts) < 2 or ns.split(".") == parts[:-1]


def NAMESPACE_OF(name):
    """the full namespace as a function of the full name (a ghost name for "the string whose components are all but the last
    component of `name`": IS_NAMESPACE_OF(NAMESPACE_OF(n), n) is its defining property, supplied where the value is used)"""
    if smt():
        from pyvc import speclib
        from pyvc.values import Str

        return speclib.CTX.engine.uf("ghost!namespace-of", z3.StringSort(), z3.StringSort())(Str.unwrap(name))
    return ".".join(name.split(".")[:-1])
