"""
The Specification's name rule, written independently of the code (shared by C05 and C15):

    a name (attribute name, type short name, namespace component) is valid iff it matches [A-Za-z_][A-Za-z0-9_]*
    and, compared case-insensitively, is none of the reserved words / patterns.

SMT reading: regular-expression membership of the whole string (case-insensitivity is spelled out as character classes
[tT][rR][uU][eE]; the code instead lower-cases the name).  Native reading: Python `re` with re.ASCII (without re.ASCII,
IGNORECASE folds U+212A KELVIN SIGN onto k).
"""
import re
import z3
from pyvc.speclib import smt

RESERVED_WORDS = ["truncated", "saturated", "true", "false", "bool", "optional", "aligned", "const", "struct", "super",
                  "template", "enum", "self", "and", "or", "not", "auto", "type", "con", "prn", "aux", "nul"]
# pattern syntax: literal characters, D = one decimal digit, '*' / '+' postfix on D, '?' postfix on a literal, '.' any
RESERVED_PATTERNS = ["voidD*", "u?intD*", "u?qD+_D+", "floatD*", "comD", "lptD", "_.*_"]

_NATIVE = re.compile(
    r"(?:%s)\Z" % "|".join(RESERVED_WORDS + [p.replace("D", "[0-9]").replace(".*", "[\\s\\S]*") for p in RESERVED_PATTERNS]),
    re.IGNORECASE | re.ASCII)
_IDENT_NATIVE = re.compile(r"[A-Za-z_][A-Za-z0-9_]*\Z", re.ASCII)


def _rng(a, b):
    return z3.Range(z3.StringVal(a), z3.StringVal(b))


def _ci(ch):
    if ch.isalpha():
        return z3.Union(z3.Re(z3.StringVal(ch.lower())), z3.Re(z3.StringVal(ch.upper())))
    return z3.Re(z3.StringVal(ch))


def _word(w):
    parts = [_ci(c) for c in w]
    return z3.Concat(*parts) if len(parts) > 1 else parts[0]


def _pattern(p):
    digit = _rng("0", "9")
    anyc = z3.AllChar(z3.ReSort(z3.StringSort()))
    items = []
    for ch in p:
        if ch == "*":
            items[-1] = z3.Star(items[-1])
        elif ch == "+":
            items[-1] = z3.Plus(items[-1])
        elif ch == "?":
            items[-1] = z3.Option(items[-1])
        elif ch == "D":
            items.append(digit)
        elif ch == ".":
            items.append(anyc)
        else:
            items.append(_ci(ch))
    return z3.Concat(*items) if len(items) > 1 else items[0]


_CACHE = {}


def IDENT_RE():
    if "ident" not in _CACHE:
        first = z3.Union(_rng("a", "z"), _rng("A", "Z"), z3.Re(z3.StringVal("_")))
        cont = z3.Union(_rng("a", "z"), _rng("A", "Z"), _rng("0", "9"), z3.Re(z3.StringVal("_")))
        _CACHE["ident"] = z3.Concat(first, z3.Star(cont))
    return _CACHE["ident"]


def RESERVED_RE():
    if "reserved" not in _CACHE:
        _CACHE["reserved"] = z3.Union(*([_word(w) for w in RESERVED_WORDS] + [_pattern(p) for p in RESERVED_PATTERNS]))
    return _CACHE["reserved"]


def IS_IDENTIFIER(name):
    """name matches [A-Za-z_][A-Za-z0-9_]*"""
    if smt():
        from pyvc.values import Str

        return z3.InRe(Str.unwrap(name), IDENT_RE())
    return _IDENT_NATIVE.match(name) is not None


def IS_RESERVED(name):
    """name is, case-insensitively, one of the reserved words / patterns"""
    if smt():
        from pyvc.values import Str

        return z3.InRe(Str.unwrap(name), RESERVED_RE())
    return _NATIVE.match(name) is not None


def VALID_NAME_RULE(name):
    """The rule itself: an identifier that is not reserved."""
    if smt():
        return z3.And(IS_IDENTIFIER(name), z3.Not(IS_RESERVED(name)))
    return IS_IDENTIFIER(name) and not IS_RESERVED(name)


def VALID_NAME(name):
    """Ghost predicate `valid-name(s)`, DEFINED as VALID_NAME_RULE(s).  The defining equation is used where the rule itself
    is checked (the body of check_name: `definitions` of its contract); every other contract talks about names only through
    this predicate, so that its obligations contain no regular expressions (z3 otherwise spends its time in the string
    solver on propositionally trivial queries)."""
    if smt():
        from pyvc import speclib
        from pyvc.values import Str

        uf = speclib.CTX.engine.uf("ghost!valid-name", z3.StringSort(), z3.BoolSort())
        return uf(Str.unwrap(name))
    return VALID_NAME_RULE(name)
