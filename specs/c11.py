"""
C11 - Port-ID and minor-version consistency rules hold for every set of definitions.

Oracle (`collide`, `compat_*`) is transcribed from the property statement, not from the code.
"""
from pyvc.spec import contract, loop_invariant, class_spec
from pyvc.values import Int, Bool, Str, Opt, SeqOf, ObjOf, RefSort
from pyvc.speclib import (AND, OR, NOT, IMPLIES, IFF, EQ, IS_NONE, VAL, ISINST, FORALL_IDX, EXISTS_IDX, AT, LEN, smt)
from pyvc import speclib
from .common import COMPOSITE, SERVICE, DELIMITED, major, minor
import z3

NS_MOD = "pydsdl._namespace."
P = ["C11"]


# ------------------------------------------------------------------------------------------------ ghost / oracle
def EXTENT(t):
    """The extent of a composite (interface contract of CompositeType.extent, established under C02)."""
    if smt():
        return speclib.CTX.engine.uf("ghost!extent", RefSort, z3.IntSort())(t.ref)
    return t.extent


def is_service(t):
    return ISINST(t, "ServiceType")


def is_sealed(t):
    return NOT(ISINST(t, "DelimitedType"))


def has_id(t):
    return NOT(IS_NONE(t.fixed_port_id))


def same_kind(a, b):
    return IFF(is_service(a), is_service(b))


def collide(a, b):
    """Statement: two definitions of the same kind never share a fixed port-ID unless they have the same full name and
    either the same major version or a major version of 0 on at least one side."""
    excused = AND(EQ(a.full_name, b.full_name), OR(major(a) == major(b), major(a) == 0, major(b) == 0))
    return AND(same_kind(a, b), has_id(a), has_id(b), EQ(a.fixed_port_id, b.fixed_port_id), NOT(excused))


def port_id_ok(a, b):
    """Statement: [minor versions] use the same port-ID (it may be added in a newer minor but never changed or removed)."""
    newer_has = OR(AND(minor(a) > minor(b), has_id(a)), AND(minor(b) > minor(a), has_id(b)))
    return OR(
        AND(NOT(has_id(a)), NOT(has_id(b))),
        AND(has_id(a), has_id(b), EQ(a.fixed_port_id, b.fixed_port_id)),
        AND(NOT(IFF(has_id(a), has_id(b))), newer_has),
    )


def extent_ok_plain(a, b):
    return EXTENT(a) == EXTENT(b)


def sealing_ok_plain(a, b):
    return IFF(is_sealed(a), is_sealed(b))


def extent_mismatch(a, b):
    """for major >= 1: equal extent, checked separately for the request and response of services"""
    return AND(major(a) > 0,
               OR(AND(NOT(is_service(a)), NOT(extent_ok_plain(a, b))),
                  AND(is_service(a), OR(NOT(extent_ok_plain(a.request_type, b.request_type)),
                                        NOT(extent_ok_plain(a.response_type, b.response_type))))))


def sealing_mismatch(a, b):
    return AND(major(a) > 0,
               OR(AND(NOT(is_service(a)), NOT(sealing_ok_plain(a, b))),
                  AND(is_service(a), OR(NOT(sealing_ok_plain(a.request_type, b.request_type)),
                                        NOT(sealing_ok_plain(a.response_type, b.response_type))))))


def compat(a, b):
    return AND(same_kind(a, b), port_id_ok(a, b), NOT(extent_mismatch(a, b)), NOT(sealing_mismatch(a, b)))


# ------------------------------------------------------------------------------------------------ interface
@contract(COMPOSITE + ".extent", props=["C11", "C02"])
class _Extent:
    """Interface contract of the `extent` property (each override is obligated to it under C02)."""
    returns = Int
    verify = False
    assumed = "interface contract; StructureType/UnionType (inherited body) and DelimitedType.extent are verified under C02"

    def post(s):
        return {"extent": s.result == EXTENT(s.self)}


# ------------------------------------------------------------------------------------------------ collisions
@contract(NS_MOD + "_ensure_no_fixed_port_id_collisions", props=P)
class _Collisions:
    params = dict(types=SeqOf(ObjOf(COMPOSITE)))
    raises = {
        "FixedPortIDCollisionError": lambda s: EXISTS_IDX(
            s.types, lambda i, a: EXISTS_IDX(s.types, lambda j, b: collide(a, b), name="j"))
    }


@loop_invariant(NS_MOD + "_ensure_no_fixed_port_id_collisions", loop=0)
def _inv_outer(s):
    return {"no-collision-so-far": FORALL_IDX(
        s.types, lambda p, a: FORALL_IDX(s.types, lambda q, b: NOT(collide(a, b)), name="q"), hi=s.i, name="p")}


@loop_invariant(NS_MOD + "_ensure_no_fixed_port_id_collisions", loop=1)
def _inv_inner(s):
    return {"no-collision-in-row": FORALL_IDX(s.types, lambda q, b: NOT(collide(s.a, b)), hi=s.i, name="q")}


# ------------------------------------------------------------------------------------------------ pairwise
@contract(NS_MOD + "_ensure_minor_version_compatibility_pairwise", props=P)
class _Pairwise:
    params = dict(a=ObjOf(COMPOSITE), b=ObjOf(COMPOSITE))

    def pre(s):
        # exactly the in-code assertions: the caller must establish them
        return {
            "distinct": NOT(s.a.ref == s.b.ref) if smt() else s.a is not s.b,
            "same-name": EQ(s.a.full_name, s.b.full_name),
            "same-major": major(s.a) == major(s.b),
            "different-minor": NOT(minor(s.a) == minor(s.b)),
        }

    raises = {
        "VersionsOfDifferentKindError": lambda s: NOT(same_kind(s.a, s.b)),
        "MinorVersionFixedPortIDError": lambda s: AND(same_kind(s.a, s.b), NOT(port_id_ok(s.a, s.b))),
        "ExtentConsistencyError": lambda s: AND(same_kind(s.a, s.b), port_id_ok(s.a, s.b), extent_mismatch(s.a, s.b)),
        "SealingConsistencyError": lambda s: AND(same_kind(s.a, s.b), port_id_ok(s.a, s.b), sealing_mismatch(s.a, s.b)),
    }

    def post(s):
        return {"compatible": compat(s.a, s.b)}
