"""
C11 - Port-ID and minor-version consistency rules hold for every set of definitions.

Oracle (`collide`, `compat_*`) is transcribed from the property statement, not from the code.
"""
from pyvc.spec import contract, loop_invariant, class_spec
from pyvc.values import Int, Bool, Str, Opt, SeqOf, ObjOf, RefSort
from pyvc.speclib import (AND, OR, NOT, IMPLIES, IFF, EQ, IS_NONE, VAL, ISINST, FORALL_IDX, EXISTS_IDX, AT, LEN, smt)
from pyvc import speclib
from .common import COMPOSITE, SERVICE, DELIMITED, major, minor
import z3

NS_MOD = "pydsdl._namespace."
P = ["C11"]


# ------------------------------------------------------------------------------------------------ ghost / oracle
def EXTENT(t):
    """The extent of a composite (interface contract of CompositeType.extent, established under C02)."""
    if smt():
        return speclib.CTX.engine.uf("ghost!extent", RefSort, z3.IntSort())(t.ref)
    return t.extent


def is_service(t):
    return ISINST(t, "ServiceType")


def is_sealed(t):
    return NOT(ISINST(t, "DelimitedType"))


def has_id(t):
    return NOT(IS_NONE(t.fixed_port_id))


def same_kind(a, b):
    return IFF(is_service(a), is_service(b))


def collide(a, b):
    """Statement: two definitions of the same kind never share a fixed port-ID unless they have the same full name and
    either the same major version or a major version of 0 on at least one side."""
    excused = AND(EQ(a.full_name, b.full_name), OR(major(a) == major(b), major(a) == 0, major(b) == 0))
    return AND(same_kind(a, b), has_id(a), has_id(b), EQ(a.fixed_port_id, b.fixed_port_id), NOT(excused))


def port_id_ok(a, b):
    """Statement: [minor versions] use the same port-ID (it may be added in a newer minor but never changed or removed)."""
    newer_has = OR(AND(minor(a) > minor(b), has_id(a)), AND(minor(b) > minor(a), has_id(b)))
    return OR(
        AND(NOT(has_id(a)), NOT(has_id(b))),
        AND(has_id(a), has_id(b), EQ(a.fixed_port_id, b.fixed_port_id)),
        AND(NOT(IFF(has_id(a), has_id(b))), newer_has),
    )


def extent_ok_plain(a, b):
    return EXTENT(a) == EXTENT(b)


def sealing_ok_plain(a, b):
    return IFF(is_sealed(a), is_sealed(b))


def extent_mismatch(a, b):
    """for major >= 1: equal extent, checked separately for the request and response of services"""
    return AND(major(a) > 0,
               OR(AND(NOT(is_service(a)), lambda: NOT(extent_ok_plain(a, b))),
                  AND(is_service(a), lambda: OR(NOT(extent_ok_plain(a.request_type, b.request_type)),
                                                NOT(extent_ok_plain(a.response_type, b.response_type))))))


def sealing_mismatch(a, b):
    return AND(major(a) > 0,
               OR(AND(NOT(is_service(a)), lambda: NOT(sealing_ok_plain(a, b))),
                  AND(is_service(a), lambda: OR(NOT(sealing_ok_plain(a.request_type, b.request_type)),
                                                NOT(sealing_ok_plain(a.response_type, b.response_type))))))


def compat(a, b):
    return AND(same_kind(a, b), port_id_ok(a, b), lambda: NOT(extent_mismatch(a, b)), lambda: NOT(sealing_mismatch(a, b)))


# ------------------------------------------------------------------------------------------------ interface
@contract(COMPOSITE + ".extent", props=["C11", "C02"])
class _Extent:
    """Interface contract of the `extent` property (each override is obligated to it under C02)."""
    returns = Int
    verify = False
    assumed = "interface contract; StructureType/UnionType (inherited body) and DelimitedType.extent are verified under C02"

    def post(s):
        return {"extent": s.result == EXTENT(s.self)}


# ------------------------------------------------------------------------------------------------ collisions
@contract(NS_MOD + "_ensure_no_fixed_port_id_collisions", props=P)
class _Collisions:
    params = dict(types=SeqOf(ObjOf(COMPOSITE)))
    raises = {
        "FixedPortIDCollisionError": lambda s: EXISTS_IDX(
            s.types, lambda i, a: EXISTS_IDX(s.types, lambda j, b: collide(a, b), name="j"))
    }


@loop_invariant(NS_MOD + "_ensure_no_fixed_port_id_collisions", loop=0)
def _inv_outer(s):
    return {"no-collision-so-far": FORALL_IDX(
        s.seq, lambda p, a: FORALL_IDX(s.seq, lambda q, b: NOT(collide(a, b)), name="q"), hi=s.i, name="p")}


@loop_invariant(NS_MOD + "_ensure_no_fixed_port_id_collisions", loop=1)
def _inv_inner(s):
    a = s.enclosing[-1]  # the element of the outer loop, whatever the code calls it
    return {"no-collision-in-row": FORALL_IDX(s.seq, lambda q, b: NOT(collide(a, b)), hi=s.i, name="q")}


# ------------------------------------------------------------------------------------------------ pairwise
@contract(NS_MOD + "_ensure_minor_version_compatibility_pairwise", props=P)
class _Pairwise:
    params = dict(a=ObjOf(COMPOSITE), b=ObjOf(COMPOSITE))

    def pre(s):
        # exactly the in-code assertions: the caller must establish them
        return {
            "distinct": NOT(s.a.ref == s.b.ref) if smt() else s.a is not s.b,
            "same-name": EQ(s.a.full_name, s.b.full_name),
            "same-major": major(s.a) == major(s.b),
        }

    raises = {
        # two distinct definitions of one name with the same version: rejected (was an AssertionError: finding F9)
        "MultipleDefinitionsUnderSameVersionError": lambda s: minor(s.a) == minor(s.b),
        "VersionsOfDifferentKindError": lambda s: AND(NOT(minor(s.a) == minor(s.b)), NOT(same_kind(s.a, s.b))),
        "MinorVersionFixedPortIDError": lambda s: AND(NOT(minor(s.a) == minor(s.b)), same_kind(s.a, s.b),
                                                      NOT(port_id_ok(s.a, s.b))),
        "ExtentConsistencyError": lambda s: AND(NOT(minor(s.a) == minor(s.b)), same_kind(s.a, s.b),
                                                port_id_ok(s.a, s.b), lambda: extent_mismatch(s.a, s.b)),
        "SealingConsistencyError": lambda s: AND(NOT(minor(s.a) == minor(s.b)), same_kind(s.a, s.b),
                                                 port_id_ok(s.a, s.b), lambda: sealing_mismatch(s.a, s.b)),
    }

    def post(s):
        return {"compatible": AND(NOT(minor(s.a) == minor(s.b)), compat(s.a, s.b))}


# ------------------------------------------------------------------------------------------------ grouping
def _distinct(a, b):
    return NOT(a.ref == b.ref) if smt() else a is not b


def _same_group(a, b):
    return AND(_distinct(a, b), EQ(a.full_name, b.full_name), major(a) == major(b))


@contract(NS_MOD + "_ensure_minor_version_compatibility", props=P)
class _MinorVersions:
    """Every ordered pair of distinct definitions with equal name and equal major version is checked pairwise."""
    params = dict(types=SeqOf(ObjOf(COMPOSITE)))

    def _bad(s, pred):
        return EXISTS_IDX(s.types, lambda i, a: EXISTS_IDX(
            s.types, lambda j, b: AND(_same_group(a, b), pred(a, b)), name="j"))

    raises = {
        "MultipleDefinitionsUnderSameVersionError": lambda s: _MinorVersions._bad(s, lambda a, b: minor(a) == minor(b)),
        "VersionsOfDifferentKindError": lambda s: _MinorVersions._bad(s, lambda a, b: NOT(same_kind(a, b))),
        "MinorVersionFixedPortIDError": lambda s: _MinorVersions._bad(s, lambda a, b: NOT(port_id_ok(a, b))),
        "ExtentConsistencyError": lambda s: _MinorVersions._bad(
            s, lambda a, b: AND(same_kind(a, b), lambda: extent_mismatch(a, b))),
        "SealingConsistencyError": lambda s: _MinorVersions._bad(
            s, lambda a, b: AND(same_kind(a, b), lambda: sealing_mismatch(a, b))),
    }

    def post(s):
        return {"all-compatible": FORALL_IDX(s.types, lambda i, a: FORALL_IDX(
            s.types, lambda j, b: IMPLIES(_same_group(a, b), lambda: AND(NOT(minor(a) == minor(b)), compat(a, b))),
            name="j"))}


# ------------------------------------------------------------------------------------------------ native harness
from pyvc.native import NativeSuite

NATIVE = NativeSuite()


def _build_type(d):
    """Real pydsdl objects from a JSON description {name, major, minor, kind, fpid, sealed, extent[, rq, rs]}."""
    import pydsdl
    from pathlib import Path
    from pydsdl import _serializable as S

    def plain(name, major_, minor_, fpid, sealed, extent, parent):
        attrs = []
        nbytes = extent // 8
        if sealed and nbytes > 0:
            u8 = S.UnsignedIntegerType(8, S.PrimitiveType.CastMode.SATURATED)
            attrs = [S.Field(S.FixedLengthArrayType(u8, nbytes), "x")]
        comps = name.split(".")
        if parent:
            path = Path(*comps[:-1][:-1]) / ("%s.%d.%d.dsdl" % (comps[-2], major_, minor_))
        else:
            path = Path(*comps[:-1]) / ("%s.%d.%d.dsdl" % (comps[-1], major_, minor_))
        t = S.StructureType(name=name, version=S.Version(major_, minor_), attributes=attrs, deprecated=False,
                            fixed_port_id=fpid, source_file_path=path, has_parent_service=parent)
        if not sealed:
            t = S.DelimitedType(t, extent)
        return t

    if d["kind"] == "svc":
        rq = plain(d["name"] + ".Request", d["major"], d["minor"], None, d["rq"]["sealed"], d["rq"]["extent"], True)
        rs = plain(d["name"] + ".Response", d["major"], d["minor"], None, d["rs"]["sealed"], d["rs"]["extent"], True)
        return S.ServiceType(rq, rs, d["fpid"])
    return plain(d["name"], d["major"], d["minor"], d["fpid"], d["sealed"], d["extent"], False)


def _gen_type(rng, names=("ns.A", "ns.B")):
    kind = rng.choice(["msg", "msg", "svc"])
    d = {"name": rng.choice(names), "major": rng.choice([0, 1, 1, 2]), "minor": rng.choice([0, 1, 2]), "kind": kind,
         "fpid": rng.choice([None, None, 1, 2] if kind == "msg" else [None, None, 1, 2]),
         "sealed": rng.random() < 0.5, "extent": rng.choice([0, 8, 16])}
    if d["major"] == 0 and d["minor"] == 0:
        d["minor"] = 1
    if kind == "svc":
        d["rq"] = {"sealed": rng.random() < 0.5, "extent": rng.choice([0, 8])}
        d["rs"] = {"sealed": rng.random() < 0.5, "extent": rng.choice([0, 8])}
    return d


def _gen_list(rng, k):
    if k % 2 == 0:
        return [_gen_type(rng) for _ in range(rng.choice([1, 2, 2, 3, 4]))]
    # focused: several minor versions of one name under one major version
    base = _gen_type(rng, names=("ns.A",))
    out = []
    minors = rng.sample([0, 1, 2, 3, 4], rng.choice([2, 3, 3, 4]))
    for m in minors:
        d = dict(base)
        d["minor"] = m if (base["major"], m) != (0, 0) else 5
        if rng.random() < 0.5:
            d["fpid"] = rng.choice([None, 1, 2])
        if rng.random() < 0.2:
            d["extent"] = rng.choice([0, 8, 16])
        if rng.random() < 0.15:
            d["sealed"] = not d["sealed"]
        if base["kind"] == "svc":
            d["rq"] = dict(base["rq"])
            d["rs"] = dict(base["rs"])
            if rng.random() < 0.2:
                d["rs"]["extent"] = rng.choice([0, 8])
        out.append(d)
    rng.shuffle(out)
    return out


def _build_list(fn_name):
    def build(desc):
        from pydsdl import _namespace

        types = [_build_type(d) for d in desc]
        fn = getattr(_namespace, fn_name)
        return (lambda: fn(types)), {"types": types}

    return build


def _gen_pair(rng, k):
    a = _gen_type(rng, names=("ns.A",))
    b = _gen_type(rng, names=("ns.A",))
    b["major"] = a["major"]
    if b["minor"] == a["minor"] and rng.random() < 0.8:
        b["minor"] = a["minor"] + 1
    if rng.random() < 0.7:
        b["kind"] = a["kind"]
        for key in ("rq", "rs"):
            if key in a:
                b[key] = dict(a[key]) if rng.random() < 0.6 else {"sealed": rng.random() < 0.5, "extent": rng.choice([0, 8])}
            else:
                b.pop(key, None)
    if b["kind"] == "svc" and "rq" not in b:
        b["rq"] = {"sealed": True, "extent": 0}
        b["rs"] = {"sealed": True, "extent": 0}
    return [a, b]


def _build_pair(desc):
    from pydsdl import _namespace

    a, b = _build_type(desc[0]), _build_type(desc[1])
    return (lambda: _namespace._ensure_minor_version_compatibility_pairwise(a, b)), {"a": a, "b": b}


NATIVE.add(NS_MOD + "_ensure_no_fixed_port_id_collisions", _gen_list, _build_list("_ensure_no_fixed_port_id_collisions"))
NATIVE.add(NS_MOD + "_ensure_minor_version_compatibility_pairwise", _gen_pair, _build_pair)
NATIVE.add(NS_MOD + "_ensure_minor_version_compatibility", _gen_list, _build_list("_ensure_minor_version_compatibility"))

NOT_COVERED = [
    "the call site _complete_read_function (file-system bound): that the two checks are applied to "
    "`definitions.direct` and `definitions.transitive + definitions.direct` is covered only by the C19 footprint contract",
]
EXPLANATION = ("Every obligation generated from the real bodies of the three rule-checking functions of _namespace.py "
               "against the oracle predicates collide/compat transcribed from the property statement.")


# effect obligations (AST, complete for what they state): no memoising decorator, no module-level state - see specs/common.py
from .common import no_hidden_state_check as _no_hidden_state_check  # noqa: E402
EXTRA_CHECKS = list(globals().get("EXTRA_CHECKS", [])) + [_no_hidden_state_check(
    ["pydsdl._namespace", "pydsdl._dsdl"], "the cross-definition checks")]
