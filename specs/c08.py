"""
C08 - Field offsets and in-language layout intrinsics equal the real bit positions.

Oracle (from the statement), for ANY base offset set B (a BitLengthSet denoting a non-empty finite set of naturals):

  structure T with fields f_0 .. f_{n-1}:   PRE_0 = padset(B, A(T));  O_i = padset(PRE_i, A(f_i));  PRE_{i+1} = sumset(O_i, L(f_i))
      (O_i: the set of bit positions at which f_i can start; PRE_i: the lengths of everything before f_i, before its padding)
  union T:        every variant starts at sumset(padset(B, A(T)), {tag width})
  delimited T:    the inner type's iteration on sumset(B, {header width})
  array E[c]:     element i starts at sumset(padset(B, A(E)), kfold(L(E), i)),  i = 0 .. c-1

Generators are verified as the sequence of their yields: the yields inside the loop over the (symbolic, unbounded) field
list / index range form a symbolic sequence (count + one array per tuple component) that the loop invariant describes for
the prefix yielded so far.  L, A, SFOLD, FIELDS ... are the C02 vocabulary (specs/c02.py), the BitLengthSet operations the
C01 contracts.  Consistency with C02: for B = {0}, PRE_n = SFold(field types), hence padset(PRE_n, A(T)) = L(T).
"""
import z3
from pyvc.spec import contract, class_spec, inline_ok, loop_invariant, REG
from pyvc.values import Int, Bool, Str, IntSet, Opt, SeqOf, ObjOf, Obj, SymSet, SymSeq, PyList, RefSort, Val, YieldSeq
from pyvc.speclib import AND, OR, NOT, IMPLIES, IFF, ITE, EQ, ISINST, AS, FORALL_IDX, FORALL_INT, LEN, AT, smt
from pyvc import speclib
from pyvc import settheory as st
from pyvc.settheory import padset, sumset, kfold_s, singleton, SETEQ, SMIN, SMAX, WFSET, ALIGNED
from . import c01, c02
from .c01 import D, DVAL, BLS
from .c02 import (L, A, WFT, SFOLD, UNIONS_L, FIELDS, FIELD_TYPES, TAG_WIDTH, EXTENT, STRUCT, UNION, FIXED, SER, _native_L,
                  _native_A)
from .common import SERIALIZABLE, COMPOSITE, DELIMITED, FIELD, ATTRIBUTE

P = ["C08"]
LEVEL = "proof"
LEAN = list(c02.LEAN)




# ------------------------------------------------------------------------------------------------ oracle
_pre_f = z3.Function("c08!pre", st.lmap_f.range(), st.amap_f.range(), st.S, z3.IntSort(), st.S)


def _lm(types):
    return st.lmap_f(types.arr)


def _am(types):
    return st.amap_f(types.arr)


def PRE(types, base0, i):
    """PRE_i: lengths of everything before field i (before the padding for field i), starting from the padded base"""
    if smt():
        return SymSet(_pre_f(_lm(types), _am(types), st._t(base0), st._i(i)))
    cur = frozenset(base0)
    for t in list(types)[:i]:
        a = _native_A(t)
        cur = frozenset(st.native_pad(a, x) + y for x in cur for y in _native_L(t))
    return cur


def PRE_ZERO(types, base0):
    """definitional: PRE_0 is the (padded) base"""
    return _pre_f(_lm(types), _am(types), st._t(base0), z3.IntVal(0)) == st._t(base0)


def PRE_UNFOLD(types, base0, n):
    """definitional instance: PRE_{n+1} = sumset(padset(PRE_n, A(f_n)), L(f_n))"""
    F, M, b = _lm(types), _am(types), st._t(base0)
    n = st._i(n)
    return _pre_f(F, M, b, n + 1) == st.sumset_f(st.padset_f(_pre_f(F, M, b, n), z3.Select(M, n)), z3.Select(F, n))


def DEFINITION(*instances):
    """definitional instances (of a primitive-recursive ghost definition) are facts of every obligation generated from
    here on; they never mention the code"""
    for f in instances:
        speclib.CTX.add_axiom(f)


def OFF(types, base0, i):
    """O_i: the set of bit positions at which field i can start"""
    if smt():
        return padset(PRE(types, base0, i), z3.Select(_am(types), st._i(i)))
    t = list(types)[i]
    return frozenset(st.native_pad(_native_A(t), x) for x in PRE(types, base0, i))


def NSET(x):
    """native: the set denoted by a BitLengthSet argument / result"""
    return frozenset(x)


def SAME(a, b):
    if smt():
        return a.ref == b.ref
    return a is b


def YIELDS(result):
    """native reading: the list of yielded values"""
    return result if smt() else list(result)


def base_of(s):
    return D(s.base_offset) if smt() else NSET(s.base_offset)


def TYPED(obj):
    """closed-world typing of a field of `self`: its dynamic class is one of the repository's subclasses of its declared
    class (materialised fields are fresh constants; abstract objects get this from the engine)"""
    if smt():
        e = speclib.CTX.engine
        return z3.Or(*[e.tag_fn(obj.ref) == e.class_id(c) for c in obj.cls.all_subclasses()])
    return True


def _wf_base(s):
    d = {"base-wf": WFSET(D(s.base_offset)) if smt() else all(isinstance(x, int) and x >= 0 for x in s.base_offset)}
    if smt():
        for name in ("_element_type", "_delimiter_header_type", "_inner", "_tag_field_type"):
            if s.self.fields is not None and name in s.self.fields and isinstance(s.self.fields[name], Obj):
                d["typing-of-" + name] = TYPED(s.self.fields[name])
    return d


# ------------------------------------------------------------------------------------------------ union
@contract(UNION + ".iterate_fields_with_offsets", props=P)
class _UnionIter:
    params = dict(base_offset=ObjOf(BLS))
    pre = _wf_base

    def post(s):
        fs = FIELDS(s.self)
        want = sumset(padset(base_of(s), A(s.self)), singleton(TAG_WIDTH(LEN(fs)))) if smt() else frozenset(
            st.native_pad(8, x) + TAG_WIDTH(len(fs)) for x in base_of(s))
        if smt():
            y = s.result
            if not isinstance(y, YieldSeq):
                return {"every-variant-once-in-order": False, "same-offset-base-plus-tag": False}
            return {
                "every-variant-once-in-order": AND(y.count == LEN(fs), FORALL_IDX(
                    fs, lambda j, f: y.item(j, ObjOf(FIELD), ObjOf(BLS))[0].ref == f.ref)),
                "same-offset-base-plus-tag": FORALL_INT(
                    lambda j: SETEQ(D(y.item(j, ObjOf(FIELD), ObjOf(BLS))[1]), want), lo=0, hi=LEN(fs) - 1, name="j"),
            }
        ys = s.result_list
        return {"every-variant-once-in-order": len(ys) == len(fs) and all(a is f for (a, _), f in zip(ys, fs)),
                "same-offset-base-plus-tag": all(NSET(o) == want for _, o in ys)}


@loop_invariant(UNION + ".iterate_fields_with_offsets", loop=0)
def _inv_union(s):
    y = s.yielded
    fs = s.seq
    j = z3.FreshConst(z3.IntSort(), "j")
    item = y.item(j, ObjOf(FIELD), ObjOf(BLS))
    return {
        "count": y.count == s.i,
        "prefix-yielded": z3.ForAll([j], z3.Implies(z3.And(0 <= j, j < s.i), z3.And(
            item[0].ref == z3.Select(fs.arr, j), item[1].ref == s.offset.ref))),
    }


# ------------------------------------------------------------------------------------------------ structure
def _struct_types(t):
    return FIELD_TYPES(t)


@contract(STRUCT + ".iterate_fields_with_offsets", props=P)
class _StructIter:
    params = dict(base_offset=ObjOf(BLS))
    pre = _wf_base

    def post(s):
        fs = FIELDS(s.self)
        if smt():
            y = s.result
            if not isinstance(y, YieldSeq):
                return {"every-field-once-in-order": False, "offsets-are-start-positions": False, "consistent-with-C02": False}
            ts = _struct_types(s.self)
            b0 = padset(base_of(s), A(s.self))
            item = lambda j: y.item(j, ObjOf(FIELD), ObjOf(BLS))
            n = LEN(fs)
            return {
                "every-field-once-in-order": AND(y.count == n, FORALL_IDX(fs, lambda j, f: item(j)[0].ref == f.ref)),
                "offsets-are-start-positions": FORALL_INT(lambda j: SETEQ(D(item(j)[1]), OFF(ts, b0, j)), lo=0, hi=n - 1, name="j"),
                # C02: with B = {0} the lengths of everything, padded to the alignment of the type, are L(T)
                "consistent-with-C02": IMPLIES(SETEQ(base_of(s), singleton(0)),
                                               lambda: SETEQ(padset(PRE(ts, b0, n), A(s.self)), L(s.self))),
            }
        ys = s.result_list
        ts = [f.data_type for f in fs]
        b0 = frozenset(st.native_pad(8, x) for x in base_of(s))
        return {"every-field-once-in-order": len(ys) == len(fs) and all(a is f for (a, _), f in zip(ys, fs)),
                "offsets-are-start-positions": all(NSET(o) == OFF(ts, b0, j) for j, (_, o) in enumerate(ys)),
                "consistent-with-C02": base_of(s) != frozenset([0]) or frozenset(
                    st.native_pad(8, x) for x in PRE(ts, b0, len(ts))) == _native_L(s.self)}


@loop_invariant(STRUCT + ".iterate_fields_with_offsets", loop=0)
def _inv_struct(s):
    y = s.yielded
    fs = s.seq
    ts = _struct_types(s.self)
    b0 = padset(D(s.base_offset), A(s.self))
    j = z3.FreshConst(z3.IntSort(), "j")
    item = y.item(j, ObjOf(FIELD), ObjOf(BLS))
    F, M = _lm(ts), _am(ts)
    # definitional instances of the two primitive-recursive definitions (PRE of this module, SFold of C02) at the index
    # of the current iteration: facts, not obligations
    DEFINITION(PRE_ZERO(ts, b0), PRE_UNFOLD(ts, b0, s.i), st.sfold_unfold(F, M, st._i(s.i)))
    return {
        "count": y.count == s.i,
        "prefix-yielded": z3.ForAll([j], z3.Implies(z3.And(0 <= j, j < s.i), z3.And(
            item[0].ref == z3.Select(fs.arr, j), SETEQ(D(item[1]), OFF(ts, b0, j))))),
        # the running offset is PRE_i: everything before field i, not yet padded for it
        "running-offset": SETEQ(D(s.offset), PRE(ts, b0, s.i)),
        "running-offset-wf": WFSET(D(s.offset)),
        # for the base {0}: the same recursion as the structure fold of C02
        "fold-consistency": IMPLIES(SETEQ(b0, singleton(0)), lambda: SETEQ(PRE(ts, b0, s.i), SymSet(st.sfold_f(F, M, st._i(s.i))))),
    }


# ------------------------------------------------------------------------------------------------ fixed-length array
def ELEMENT_OFFSET(t, base, i):
    """element i of E[c] starts at sumset(padset(B, A(E)), kfold(L(E), i))"""
    if smt():
        e = t._element_type
        return sumset(padset(base, A(e)), kfold_s(L(e), i))
    e = t.element_type
    a = _native_A(e)
    return frozenset(st.native_pad(a, x) + y for x in base for y in st.native_kfold(_native_L(e), i))


@contract(FIXED + ".enumerate_elements_with_offsets", props=P)
class _ArrayEnum:
    params = dict(base_offset=ObjOf(BLS))
    pre = _wf_base

    def post(s):
        if smt():
            y = s.result
            if not isinstance(y, YieldSeq):
                return {"every-index-once-in-order": False, "offsets-are-start-positions": False}
            c = s.self._capacity
            item = lambda j: y.item(j, Int, ObjOf(BLS))
            return {
                "every-index-once-in-order": AND(y.count == c, FORALL_INT(lambda j: item(j)[0] == j, lo=0, hi=c - 1, name="j")),
                "offsets-are-start-positions": FORALL_INT(
                    lambda j: SETEQ(D(item(j)[1]), ELEMENT_OFFSET(s.self, base_of(s), j)), lo=0, hi=c - 1, name="j"),
            }
        ys = s.result_list
        return {"every-index-once-in-order": [i for i, _ in ys] == list(range(s.self.capacity)),
                "offsets-are-start-positions": all(NSET(o) == ELEMENT_OFFSET(s.self, base_of(s), i) for i, o in ys)}


@loop_invariant(FIXED + ".enumerate_elements_with_offsets", loop=0)
def _inv_array(s):
    y = s.yielded
    j = z3.FreshConst(z3.IntSort(), "j")
    item = y.item(j, Int, ObjOf(BLS))
    # NB: inside the function `base_offset` has been re-bound to the padded base; the oracle is stated over the padded set
    e = s.self._element_type
    return {
        "count": y.count == s.i,
        "prefix-yielded": z3.ForAll([j], z3.Implies(z3.And(0 <= j, j < s.i), z3.And(
            item[0] == j, SETEQ(D(item[1]), sumset(D(s.base_offset), kfold_s(L(e), j)))))),
    }


# ------------------------------------------------------------------------------------------------ delimited
def ITERATION(t, base):
    """Call tag: the iterator that `t.iterate_fields_with_offsets(<a base denoting this set>)` returns."""
    if smt():
        f = speclib.CTX.engine.uf("ghost!iterate", RefSort, st.S, Val.sort())
        return f(t.ref, st._t(base))
    return None


@contract(COMPOSITE + ".iterate_fields_with_offsets", props=P)
class _IterIface:
    """Interface contract of the abstract method (call tagging: the result is named by the receiver and the set the base
    denotes); StructureType and UnionType are verified against the oracle above, DelimitedType below."""
    params = dict(base_offset=ObjOf(BLS))
    returns = Val
    verify = False
    assumed = "interface contract of the abstract CompositeType.iterate_fields_with_offsets (call tag)"
    value = staticmethod(lambda s: ITERATION(s.self, D(s.base_offset)))

    def pre(s):
        return {"base-wf": WFSET(D(s.base_offset))}


@contract(DELIMITED + ".iterate_fields_with_offsets", props=P)
class _DelimIter:
    params = dict(base_offset=ObjOf(BLS))
    pre = _wf_base

    def post(s):
        if smt():
            h = s.self._delimiter_header_type._bit_length
            r = s.result
            ok = isinstance(r, z3.ExprRef) and r.sort() == Val.sort()
            return {
                # the inner type's iteration on base + header, where the header is the 32-bit delimiter of the Specification
                "inner-iteration-after-header": (r == ITERATION(s.self._inner, sumset(base_of(s), singleton(32)))) if ok else False,
            }
        inner = s.self.inner_type
        want = list(inner.iterate_fields_with_offsets(__import__("pydsdl").BitLengthSet({x + 32 for x in base_of(s)})))
        ys = s.result_list
        return {"inner-iteration-after-header": len(ys) == len(want) and all(
            a is b and NSET(o) == NSET(p) for (a, o), (b, p) in zip(ys, want))}
