"""
C08 - Field offsets and in-language layout intrinsics equal the real bit positions.

Oracle (from the statement), for ANY base offset set B (a BitLengthSet denoting a non-empty finite set of naturals):

  structure T with fields f_0 .. f_{n-1}:   PRE_0 = padset(B, A(T));  O_i = padset(PRE_i, A(f_i));  PRE_{i+1} = sumset(O_i, L(f_i))
      (O_i: the set of bit positions at which f_i can start; PRE_i: the lengths of everything before f_i, before its padding)
  union T:        every variant starts at sumset(padset(B, A(T)), {tag width})
  delimited T:    the inner type's iteration on sumset(B, {header width})
  array E[c]:     element i starts at sumset(padset(B, A(E)), kfold(L(E), i)),  i = 0 .. c-1

Generators are verified as the sequence of their yields: the yields inside the loop over the (symbolic, unbounded) field
list / index range form a symbolic sequence (count + one array per tuple component) that the loop invariant describes for
the prefix yielded so far.  L, A, SFOLD, FIELDS ... are the C02 vocabulary (specs/c02.py), the BitLengthSet operations the
C01 contracts.  Consistency with C02: for B = {0}, PRE_n = SFold(field types), hence padset(PRE_n, A(T)) = L(T).
"""
import z3
from pyvc.spec import contract, class_spec, inline_ok, loop_invariant, REG
from pyvc.values import Int, Bool, Str, IntSet, Opt, SeqOf, ObjOf, Obj, SymSet, SymSeq, PyList, RefSort, Val, YieldSeq
from pyvc.speclib import AND, OR, NOT, IMPLIES, IFF, ITE, EQ, ISINST, AS, FORALL_IDX, FORALL_INT, LEN, AT, smt
from pyvc import speclib
from pyvc import settheory as st
from pyvc.settheory import padset, sumset, kfold_s, singleton, SETEQ, SMIN, SMAX, WFSET, ALIGNED
from . import c01, c02
from .c01 import D, DVAL, BLS
from .c02 import (L, A, WFT, SFOLD, UNIONS_L, FIELDS, FIELD_TYPES, TAG_WIDTH, EXTENT, STRUCT, UNION, FIXED, SER, _native_L,
                  _native_A)
from .common import SERIALIZABLE, COMPOSITE, DELIMITED, FIELD, ATTRIBUTE

P = ["C08"]
LEVEL = "proof"
LEAN = list(c02.LEAN)




# ------------------------------------------------------------------------------------------------ oracle
_pre_f = z3.Function("c08!pre", st.lmap_f.range(), st.amap_f.range(), st.S, z3.IntSort(), st.S)


def _lm(types):
    return st.lmap_f(types.arr)


def _am(types):
    return st.amap_f(types.arr)


def PRE(types, base0, i):
    """PRE_i: lengths of everything before field i (before the padding for field i), starting from the padded base"""
    if smt():
        return SymSet(_pre_f(_lm(types), _am(types), st._t(base0), st._i(i)))
    cur = frozenset(base0)
    for t in list(types)[:i]:
        a = _native_A(t)
        cur = frozenset(st.native_pad(a, x) + y for x in cur for y in _native_L(t))
    return cur


def PRE_ZERO(types, base0):
    """definitional: PRE_0 is the (padded) base"""
    return _pre_f(_lm(types), _am(types), st._t(base0), z3.IntVal(0)) == st._t(base0)


def PRE_UNFOLD(types, base0, n):
    """definitional instance: PRE_{n+1} = sumset(padset(PRE_n, A(f_n)), L(f_n))"""
    F, M, b = _lm(types), _am(types), st._t(base0)
    n = st._i(n)
    return _pre_f(F, M, b, n + 1) == st.sumset_f(st.padset_f(_pre_f(F, M, b, n), z3.Select(M, n)), z3.Select(F, n))


def DEFINITION(*instances):
    """definitional instances (of a primitive-recursive ghost definition) are facts of every obligation generated from
    here on; they never mention the code"""
    for f in instances:
        speclib.CTX.add_axiom(f)


def PRELUDE_INSTANCE(name, *terms):
    """A ground instance of a universally quantified prelude axiom (sound: the axiom itself is assumed in every query).
    `terms` are given in the order of the axiom's bound variables; None skips a conjunct selector (see pmod-const)."""
    eng = speclib.CTX.engine
    for (n, why, ax) in eng.prelude_named:
        if n == name:
            break
    else:
        raise KeyError(name)
    qs = [ax] if z3.is_quantifier(ax) else [c for c in ax.children() if z3.is_quantifier(c)]
    args = [t for t in terms if t is not None]
    for q in qs:
        if q.num_vars() == len(args) and all(q.var_sort(k) == args[k].sort() for k in range(len(args))):
            speclib.CTX.add_axiom(z3.substitute_vars(q.body(), *reversed(args)))


def OFF(types, base0, i):
    """O_i: the set of bit positions at which field i can start"""
    if smt():
        return padset(PRE(types, base0, i), z3.Select(_am(types), st._i(i)))
    t = list(types)[i]
    return frozenset(st.native_pad(_native_A(t), x) for x in PRE(types, base0, i))


def NSET(x):
    """native: the set denoted by a BitLengthSet argument / result"""
    return frozenset(x)


def SAME(a, b):
    if smt():
        return a.ref == b.ref
    return a is b


def YIELDS(result):
    """native reading: the list of yielded values"""
    return result if smt() else list(result)


def base_of(s):
    return D(s.base_offset) if smt() else NSET(s.base_offset)


def TYPED(obj):
    """closed-world typing of a field of `self`: its dynamic class is one of the repository's subclasses of its declared
    class (materialised fields are fresh constants; abstract objects get this from the engine)"""
    if smt():
        e = speclib.CTX.engine
        return z3.Or(*[e.tag_fn(obj.ref) == e.class_id(c) for c in obj.cls.all_subclasses()])
    return True


def _wf_base(s):
    return {"base-wf": WFSET(D(s.base_offset)) if smt() else all(isinstance(x, int) and x >= 0 for x in s.base_offset)}


# ------------------------------------------------------------------------------------------------ union
@contract(UNION + ".iterate_fields_with_offsets", props=P)
class _UnionIter:
    params = dict(base_offset=ObjOf(BLS))
    pre = _wf_base

    def post(s):
        fs = FIELDS(s.self)
        want = sumset(padset(base_of(s), A(s.self)), singleton(TAG_WIDTH(LEN(fs)))) if smt() else frozenset(
            st.native_pad(8, x) + TAG_WIDTH(len(fs)) for x in base_of(s))
        if smt():
            y = s.result
            if not isinstance(y, YieldSeq):
                return {"every-variant-once-in-order": False, "same-offset-base-plus-tag": False}
            return {
                "every-variant-once-in-order": AND(y.count == LEN(fs), FORALL_IDX(
                    fs, lambda j, f: y.item(j, ObjOf(FIELD), ObjOf(BLS))[0].ref == f.ref)),
                "same-offset-base-plus-tag": FORALL_INT(
                    lambda j: SETEQ(D(y.item(j, ObjOf(FIELD), ObjOf(BLS))[1]), want), lo=0, hi=LEN(fs) - 1, name="j"),
            }
        ys = YIELDS(s.result)
        return {"every-variant-once-in-order": len(ys) == len(fs) and all(a is f for (a, _), f in zip(ys, fs)),
                "same-offset-base-plus-tag": all(NSET(o) == want for _, o in ys)}


@loop_invariant(UNION + ".iterate_fields_with_offsets", loop=0)
def _inv_union(s):
    y = s.yielded
    fs = s.seq
    j = z3.FreshConst(z3.IntSort(), "j")
    item = y.item(j, ObjOf(FIELD), ObjOf(BLS))
    # ground instances of prelude lemmas (already assumed universally; stated for the terms at hand so that the byte
    # alignment of base + tag does not depend on the solver's instantiation heuristics)
    t = st._i(s.self._tag_field_type._bit_length)
    pb = st.padset_f(st._t(D(s.base_offset)), z3.IntVal(8))
    PRELUDE_INSTANCE("pmod-const", None, t)
    PRELUDE_INSTANCE("aligned-singleton", t, z3.IntVal(8))
    PRELUDE_INSTANCE("aligned-padset", st._t(D(s.base_offset)), z3.IntVal(8))
    PRELUDE_INSTANCE("aligned-sumset", pb, st.singleton_f(t), z3.IntVal(8))
    return {
        "count": y.count == s.i,
        "prefix-yielded": z3.ForAll([j], z3.Implies(z3.And(0 <= j, j < s.i), z3.And(
            item[0].ref == z3.Select(fs.arr, j), item[1].ref == s.offset.ref))),
        # base padded to a byte plus a tag of 8 / 16 / 32 / 64 bits: byte aligned (what the in-code assertion needs)
        "offset-byte-aligned": ALIGNED(D(s.offset), 8),
    }


# ------------------------------------------------------------------------------------------------ structure
def _struct_types(t):
    return FIELD_TYPES(t)


@contract(STRUCT + ".iterate_fields_with_offsets", props=P)
class _StructIter:
    params = dict(base_offset=ObjOf(BLS))
    pre = _wf_base

    def post(s):
        fs = FIELDS(s.self)
        if smt():
            y = s.result
            if not isinstance(y, YieldSeq):
                return {"every-field-once-in-order": False, "offsets-are-start-positions": False, "consistent-with-C02": False}
            ts = _struct_types(s.self)
            b0 = padset(base_of(s), A(s.self))
            item = lambda j: y.item(j, ObjOf(FIELD), ObjOf(BLS))
            n = LEN(fs)
            return {
                "every-field-once-in-order": AND(y.count == n, FORALL_IDX(fs, lambda j, f: item(j)[0].ref == f.ref)),
                "offsets-are-start-positions": FORALL_INT(lambda j: SETEQ(D(item(j)[1]), OFF(ts, b0, j)), lo=0, hi=n - 1, name="j"),
                # C02: with B = {0} the lengths of everything, padded to the alignment of the type, are L(T)
                "consistent-with-C02": IMPLIES(SETEQ(base_of(s), singleton(0)),
                                               lambda: SETEQ(padset(PRE(ts, b0, n), A(s.self)), L(s.self))),
            }
        ys = YIELDS(s.result)
        ts = [f.data_type for f in fs]
        b0 = frozenset(st.native_pad(8, x) for x in base_of(s))
        return {"every-field-once-in-order": len(ys) == len(fs) and all(a is f for (a, _), f in zip(ys, fs)),
                "offsets-are-start-positions": all(NSET(o) == OFF(ts, b0, j) for j, (_, o) in enumerate(ys)),
                "consistent-with-C02": base_of(s) != frozenset([0]) or frozenset(
                    st.native_pad(8, x) for x in PRE(ts, b0, len(ts))) == _native_L(s.self)}


@loop_invariant(STRUCT + ".iterate_fields_with_offsets", loop=0)
def _inv_struct(s):
    y = s.yielded
    fs = s.seq
    ts = _struct_types(s.self)
    b0 = padset(D(s.base_offset), A(s.self))
    j = z3.FreshConst(z3.IntSort(), "j")
    item = y.item(j, ObjOf(FIELD), ObjOf(BLS))
    F, M = _lm(ts), _am(ts)
    # definitional instances of the two primitive-recursive definitions (PRE of this module, SFold of C02) at the index
    # of the current iteration: facts, not obligations
    DEFINITION(PRE_ZERO(ts, b0), PRE_UNFOLD(ts, b0, s.i), st.sfold_unfold(F, M, st._i(s.i)))
    return {
        "count": y.count == s.i,
        "prefix-yielded": z3.ForAll([j], z3.Implies(z3.And(0 <= j, j < s.i), z3.And(
            item[0].ref == z3.Select(fs.arr, j), SETEQ(D(item[1]), OFF(ts, b0, j))))),
        # the running offset is PRE_i: everything before field i, not yet padded for it
        "running-offset": SETEQ(D(s.offset), PRE(ts, b0, s.i)),
        "running-offset-wf": WFSET(D(s.offset)),
        # for the base {0}: the same recursion as the structure fold of C02
        "fold-consistency": IMPLIES(SETEQ(b0, singleton(0)), lambda: SETEQ(PRE(ts, b0, s.i), SymSet(st.sfold_f(F, M, st._i(s.i))))),
    }


# ------------------------------------------------------------------------------------------------ fixed-length array
def ELEMENT_OFFSET(t, base, i):
    """element i of E[c] starts at sumset(padset(B, A(E)), kfold(L(E), i))"""
    if smt():
        e = t._element_type
        return sumset(padset(base, A(e)), kfold_s(L(e), i))
    e = t.element_type
    a = _native_A(e)
    return frozenset(st.native_pad(a, x) + y for x in base for y in st.native_kfold(_native_L(e), i))


@contract(FIXED + ".enumerate_elements_with_offsets", props=P)
class _ArrayEnum:
    params = dict(base_offset=ObjOf(BLS))
    pre = _wf_base

    def post(s):
        if smt():
            y = s.result
            if not isinstance(y, YieldSeq):
                return {"every-index-once-in-order": False, "offsets-are-start-positions": False}
            c = s.self._capacity
            item = lambda j: y.item(j, Int, ObjOf(BLS))
            return {
                "every-index-once-in-order": AND(y.count == c, FORALL_INT(lambda j: item(j)[0] == j, lo=0, hi=c - 1, name="j")),
                "offsets-are-start-positions": FORALL_INT(
                    lambda j: SETEQ(D(item(j)[1]), ELEMENT_OFFSET(s.self, base_of(s), j)), lo=0, hi=c - 1, name="j"),
            }
        ys = YIELDS(s.result)
        return {"every-index-once-in-order": [i for i, _ in ys] == list(range(s.self.capacity)),
                "offsets-are-start-positions": all(NSET(o) == ELEMENT_OFFSET(s.self, base_of(s), i) for i, o in ys)}


@loop_invariant(FIXED + ".enumerate_elements_with_offsets", loop=0)
def _inv_array(s):
    y = s.yielded
    j = z3.FreshConst(z3.IntSort(), "j")
    item = y.item(j, Int, ObjOf(BLS))
    # NB: inside the function `base_offset` has been re-bound to the padded base; the oracle is stated over the padded set
    e = s.self._element_type
    return {
        "count": y.count == s.i,
        "prefix-yielded": z3.ForAll([j], z3.Implies(z3.And(0 <= j, j < s.i), z3.And(
            item[0] == j, SETEQ(D(item[1]), sumset(D(s.base_offset), kfold_s(L(e), j)))))),
    }


# ------------------------------------------------------------------------------------------------ delimited
def ITERATION(t, base):
    """Call tag: the iterator that `t.iterate_fields_with_offsets(<a base denoting this set>)` returns."""
    if smt():
        f = speclib.CTX.engine.uf("ghost!iterate", RefSort, st.S, Val.sort())
        return f(t.ref, st._t(base))
    return None


@contract(COMPOSITE + ".iterate_fields_with_offsets", props=P)
class _IterIface:
    """Interface contract of the abstract method (call tagging: the result is named by the receiver and the set the base
    denotes); StructureType and UnionType are verified against the oracle above, DelimitedType below."""
    params = dict(base_offset=ObjOf(BLS))
    returns = Val
    verify = False
    assumed = "interface contract of the abstract CompositeType.iterate_fields_with_offsets (call tag)"
    value = staticmethod(lambda s: ITERATION(s.self, D(s.base_offset)))

    def pre(s):
        return {"base-wf": WFSET(D(s.base_offset))}


@contract(SER + "_composite.ServiceType.iterate_fields_with_offsets", props=P)
class _ServiceIter:
    """The fourth override of the interface method: a service type has no fields of its own - always TypeError
    (so the interface contract above, which has no exceptional clause, is never relied on for a service receiver: the
    class invariant of DelimitedType excludes a service as inner type)."""
    params = dict(base_offset=ObjOf(BLS))
    never_returns = True
    raises = {"TypeError": lambda s: True}


@contract(DELIMITED + ".iterate_fields_with_offsets", props=P)
class _DelimIter:
    params = dict(base_offset=ObjOf(BLS))
    pre = _wf_base

    def post(s):
        if smt():
            h = s.self._delimiter_header_type._bit_length
            r = s.result
            ok = isinstance(r, z3.ExprRef) and r.sort() == Val.sort()
            return {
                # the inner type's iteration on base + header, where the header is the 32-bit delimiter of the Specification
                "inner-iteration-after-header": (r == ITERATION(s.self._inner, sumset(base_of(s), singleton(32)))) if ok else False,
            }
        inner = s.self.inner_type
        want = list(inner.iterate_fields_with_offsets(__import__("pydsdl").BitLengthSet({x + 32 for x in base_of(s)})))
        ys = YIELDS(s.result)
        return {"inner-iteration-after-header": len(ys) == len(want) and all(
            a is b and NSET(o) == NSET(p) for (a, o), (b, p) in zip(ys, want))}


# ------------------------------------------------------------------------------------------------ intrinsics
from .common import ANY, RATIONAL_X, STRING_X, SET_X, CONSTANT

SCHEMA_BUILDER = "pydsdl._data_schema_builder.DataSchemaBuilder"
TYPE_BUILDER = "pydsdl._data_type_builder.DataTypeBuilder"
SERVICE_NAME = "ServiceType"


@class_spec(SCHEMA_BUILDER)
class _SchemaBuilderSpec:
    fields = dict(_fields=SeqOf(ObjOf(FIELD)), _constants=SeqOf(ObjOf(CONSTANT)), _is_union=Bool,
                  _bit_length_computed_at_least_once=Bool, _doc=Str)
    mutable = ["_fields", "_constants", "_is_union", "_bit_length_computed_at_least_once", "_doc"]


@class_spec(TYPE_BUILDER)
class _TypeBuilderSpec:
    fields = dict(_structs=SeqOf(ObjOf(SCHEMA_BUILDER)))


def INTS(setobj):
    """the integers whose Rational is an element of a DSDL expression Set"""
    if smt():
        return SymSet(speclib.CTX.engine.uf("ghost!set-ints", RefSort, st.S)(setobj.ref))
    out = set()
    for x in setobj:
        v = x.native_value
        if v.denominator != 1:
            return None
        out.add(int(v))
    return frozenset(out)


@contract(SET_X + ".__init__", props=P)
class _SetInit:
    """Assumed, for the one shape the intrinsics use - `Set(map(Rational, <bit length set>))`: the new Set holds exactly the
    Rationals of the integers of the (non-empty) source."""
    verify = False
    assumed = ("_expression.Set.__init__ applied to map(Rational, bls): a homogeneous non-empty set of Rationals, one per "
               "element of the source (frozenset of the mapped elements)")

    @staticmethod
    def _source(s):
        from pyvc.values import MappedIter, ClassVal

        e = s.elements
        if isinstance(e, MappedIter) and isinstance(e.fn, ClassVal) and e.fn.cls.name == "Rational" and isinstance(e.it, Obj):
            return e.it
        raise speclib.V.EngineLimit("Set(...) of a shape other than Set(map(Rational, <BitLengthSet>))")

    def pre(s):
        return {"source-non-empty": WFSET(D(_SetInit._source(s)))}

    def post(s):
        return {"rationals-of-the-source": SETEQ(INTS(s.self), D(_SetInit._source(s)))}


def field_types_of(builder):
    from pyvc.speclib import MAPSEQ

    if smt():
        return MAPSEQ(builder._fields, lambda f: f._data_type)
    return [f.data_type for f in builder._fields]


def OFFSET_INTRINSIC(builder):
    """Statement: in a structure, the lengths of everything before this point (before any padding for the next field) -
    PRE_n of the fields committed so far with base {0}, i.e. SFold; in a union: tag + union of the variants."""
    ts = field_types_of(builder)
    if smt():
        n = LEN(ts)
        union_case = ITE_SET(n >= 2, sumset(singleton(TAG_WIDTH(n)), UNIONS_L(ts)),
                             ITE_SET(n == 1, L(AT(ts, 0)), singleton(0)))
        return ITE_SET(builder._is_union, union_case, SFOLD(ts))
    if builder._is_union:
        n = len(ts)
        if n >= 2:
            return frozenset(TAG_WIDTH(n) + x for x in UNIONS_L(ts))
        return _native_L(ts[0]) if n == 1 else frozenset([0])
    return frozenset(SFOLD(ts))


def ITE_SET(c, a, b):
    if isinstance(c, bool):
        return a if c else b
    return SymSet(z3.If(c, st._t(a), st._t(b)))


def _types_serializable(builder):
    return FORALL_IDX(builder._fields, lambda i, f: NOT(ISINST(f._data_type, SERVICE_NAME)))


@contract(SCHEMA_BUILDER + ".offset", props=P)
class _Offset:
    returns = ObjOf(BLS)
    modifies = ["_bit_length_computed_at_least_once"]

    def pre(s):
        # domain: field types that have a layout (a service type as a field type is rejected when the composite is built)
        return {"field-types-serializable": _types_serializable(s.self)}

    def post(s):
        return {"lengths-of-everything-before": SETEQ(D(s.result), OFFSET_INTRINSIC(s.self)) if smt() else
                NSET(s.result) == OFFSET_INTRINSIC(s.self),
                "marks-analysis-done": s.self._bit_length_computed_at_least_once if smt() else True}


def _named(c, name):
    return EQ(c._name, name) if smt() else c.name == name


def no_constant_named(constants, name, hi=None):
    return FORALL_IDX(constants, lambda i, c: NOT(_named(c, name)), hi=hi)


def first_constant_value(result, constants, name):
    """result is the value of the first constant with that name"""
    from pyvc.speclib import EXISTS_IDX

    if smt():
        return EXISTS_IDX(constants, lambda i, c: AND(_named(c, name), result.ref == c._value.ref,
                                                      no_constant_named(constants, name, hi=i)))
    for c in constants:
        if c.name == name:
            return result is c.value
    return False


@contract(TYPE_BUILDER + ".resolve_top_level_identifier", props=P)
class _ResolveTop:
    params = dict(name=Str)
    returns = ObjOf(ANY)

    @staticmethod
    def _cur(s):
        st_ = s.self._structs
        return AT(st_, LEN(st_) - 1) if smt() else st_[-1]

    def pre(s):
        cur = _ResolveTop._cur(s)
        return {"inside-a-definition": LEN(s.self._structs) >= 1,
                "field-types-serializable": _types_serializable(cur) if smt() else True}

    raises = {"UndefinedIdentifierError": lambda s: AND(
        no_constant_named(_ResolveTop._cur(s)._constants, s.name), NOT(EQ(s.name, "_offset_")))}

    def post(s):
        cur = _ResolveTop._cur(s)
        cs = cur._constants
        none = no_constant_named(cs, s.name)
        is_offset = AND(none, EQ(s.name, "_offset_"))
        return {
            "constants-shadow": IMPLIES(NOT(none), lambda: first_constant_value(s.result, cs, s.name)),
            "offset-intrinsic": IMPLIES(is_offset, lambda: AND(
                ISINST(s.result, "pydsdl._expression._container.Set"),
                SETEQ(INTS(s.result), OFFSET_INTRINSIC(cur)) if smt() else INTS(s.result) == OFFSET_INTRINSIC(cur))),
        }


@loop_invariant(TYPE_BUILDER + ".resolve_top_level_identifier", loop=0)
def _inv_resolve_top(s):
    return {"no-earlier-constant": FORALL_IDX(s.seq, lambda i, c: NOT(EQ(c._name, s.name)), hi=s.i)}


@contract(SERIALIZABLE + "._attribute", props=P)
class _SerAttr:
    params = dict(name=ObjOf(STRING_X))
    returns = ObjOf(ANY)

    raises = {"UndefinedAttributeError": lambda s: OR(NOT(EQ(s.name._value, "_bit_length_")), ISINST(s.self, SERVICE_NAME))}

    def post(s):
        return {"bit-length-intrinsic": AND(
            ISINST(s.result, "pydsdl._expression._container.Set"),
            SETEQ(INTS(s.result), L(s.self)) if smt() else INTS(s.result) == frozenset(_native_L(s.self)))}


@contract(COMPOSITE + "._attribute", props=P)
class _CompAttr:
    params = dict(name=ObjOf(STRING_X))
    returns = ObjOf(ANY)
    self_classes = ["StructureType", "UnionType", "DelimitedType", "ServiceType"]

    @staticmethod
    def _consts(s):
        from pyvc.speclib import FILTER

        return FILTER(s.self._attributes, lambda a: ISINST(a, "Constant")) if smt() else s.self.constants

    raises = {"UndefinedAttributeError": lambda s: AND(
        no_constant_named(_CompAttr._consts(s), s.name._value),
        OR(ISINST(s.self, SERVICE_NAME), NOT(OR(EQ(s.name._value, "_extent_"), EQ(s.name._value, "_bit_length_")))))}

    def post(s):
        cs = _CompAttr._consts(s)
        nm = s.name._value
        none = no_constant_named(cs, nm)
        return {
            "constants-first": IMPLIES(NOT(none), lambda: first_constant_value(s.result, cs, nm)),
            "extent-intrinsic": IMPLIES(AND(none, EQ(nm, "_extent_")), lambda: AND(
                ISINST(s.result, "pydsdl._expression._primitive.Rational"),
                RATIONAL_IS(s.result, EXTENT(s.self)))),
            "bit-length-intrinsic": IMPLIES(AND(none, EQ(nm, "_bit_length_")), lambda: AND(
                ISINST(s.result, "pydsdl._expression._container.Set"),
                SETEQ(INTS(s.result), L(s.self)) if smt() else INTS(s.result) == frozenset(_native_L(s.self)))),
        }


def RATIONAL_IS(r, n):
    if smt():
        from pyvc.values import FractionV, Real

        v = AS(r, RATIONAL_X)._value
        t = v.term if isinstance(v, FractionV) else v
        return t == Real.unwrap(st._i(n))
    return r.native_value == n


@loop_invariant(COMPOSITE + "._attribute", loop=0)
def _inv_comp_attr(s):
    return {"no-earlier-constant": FORALL_IDX(s.seq, lambda i, c: NOT(EQ(c._name, s.name._value)), hi=s.i)}


# len() of a bit length set that denotes a non-empty set is positive (needed by the in-code assertion of
# DataSchemaBuilder.offset): clause added to the C01 contract of BitLengthSet.__len__, whose body is re-verified here
def _extend_len():
    c = REG.contracts[BLS + ".__len__"]
    old = c.post

    def post(s, _old=old):
        out = dict(_old(s))
        out["c08-positive-when-non-empty"] = IMPLIES(WFSET(D(s.self)), s.result >= 1) if smt() else (len(s.self) >= 1)
        return out

    c.post = post
    if "C08" not in c.props:
        c.props.append("C08")


_extend_len()


# The aggregate_bit_length_sets contracts of specs/c02.py carry "C08" (they are what `_offset_` rests on); they are verified
# under C02 and only *used* here (their bodies are not re-verified by the C08 run)
for _q in (STRUCT + ".aggregate_bit_length_sets", UNION + ".aggregate_bit_length_sets"):
    pass  # (the bodies of the aggregate functions are verified under C02; since the C02 rework they also discharge here)


# CompositeType.extent on a ServiceType goes through `bit_length_set`, which raises TypeError (service types have no
# layout): the C02 contract of `extent` does not say so; added here for the call site in CompositeType._attribute
_ext = REG.contracts[COMPOSITE + ".extent"]
if "TypeError" not in _ext.raises:
    _ext.raises["TypeError"] = lambda s: ISINST(s.self, SERVICE_NAME)


# ------------------------------------------------------------------------------------------------ native harness
from pyvc.native import NativeSuite

NATIVE = NativeSuite()
NATIVE_BUDGET = {"quick": 80, "thorough": 1500}


def _g_prim(rng):
    k = rng.choice(["u", "u", "i", "f", "b"])
    if k == "u":
        return ["u", rng.choice([1, 3, 7, 8, 13, 16, 64])]
    if k == "i":
        return ["i", rng.choice([2, 8, 9, 32])]
    if k == "f":
        return ["f", rng.choice([16, 32, 64])]
    return ["b"]


def _g_type(rng, depth):
    if depth <= 0:
        return _g_prim(rng)
    k = rng.choice(["prim", "prim", "fix", "var", "struct", "union", "delim"])
    if k == "prim":
        return _g_prim(rng)
    if k in ("fix", "var"):
        return [k, _g_type(rng, depth - 1), rng.choice([1, 2, 3, 5])]
    if k == "delim":
        return ["delim", _g_composite(rng, depth - 1, "struct"), rng.choice([0, 8, 16])]
    return _g_composite(rng, depth - 1, k)


def _g_composite(rng, depth, kind):
    n = rng.choice([0, 1, 2, 3]) if kind == "struct" else rng.choice([2, 3])
    fields = []
    for j in range(n):
        if kind == "struct" and rng.random() < 0.2:
            fields.append(["void", rng.choice([1, 3, 8])])
        else:
            fields.append(_g_type(rng, depth))
    return [kind, fields]


def _mk(d, counter=[0]):
    from pathlib import Path
    from pydsdl import _serializable as S

    T = S.PrimitiveType.CastMode.TRUNCATED
    k = d[0]
    if k == "u":
        return S.UnsignedIntegerType(d[1], T)
    if k == "i":
        return S.SignedIntegerType(d[1], S.PrimitiveType.CastMode.SATURATED)
    if k == "f":
        return S.FloatType(d[1], T)
    if k == "b":
        return S.BooleanType()
    if k == "void":
        return S.VoidType(d[1])
    if k == "fix":
        return S.FixedLengthArrayType(_mk(d[1]), d[2])
    if k == "var":
        return S.VariableLengthArrayType(_mk(d[1]), d[2])
    if k == "delim":
        inner = _mk(d[1])
        return S.DelimitedType(inner, inner.extent + d[2])
    counter[0] += 1
    cls = S.StructureType if k == "struct" else S.UnionType
    attrs = []
    for j, fd in enumerate(d[1]):
        t = _mk(fd)
        attrs.append(S.PaddingField(t) if fd[0] == "void" else S.Field(t, "f%d" % j))
    return cls(name="ns.T%d" % counter[0], version=S.Version(1, 0), attributes=attrs, deprecated=False, fixed_port_id=None,
               source_file_path=Path("ns/T%d.1.0.dsdl" % counter[0]), has_parent_service=False)


_BASES = [[0], [8], [1], [3, 8], [0, 4, 8, 12], [5], [16, 24], [7, 9]]


def _gen_iter(kind):
    def gen(rng, i):
        d = _g_composite(rng, 2, kind) if kind in ("struct", "union") else (
            ["delim", _g_composite(rng, 1, rng.choice(["struct", "union"])), rng.choice([0, 8, 24])] if kind == "delim"
            else ["fix", _g_type(rng, 1), rng.choice([1, 2, 3, 4])])
        return {"type": d, "base": rng.choice(_BASES)}
    return gen


def _build_iter(desc):
    from pydsdl import BitLengthSet

    t = _mk(desc["type"])
    b = BitLengthSet(desc["base"])
    if desc["type"][0] == "fix":
        return (lambda: list(t.enumerate_elements_with_offsets(b))), {"self": t, "base_offset": b}
    return (lambda: list(t.iterate_fields_with_offsets(b))), {"self": t, "base_offset": b}


NATIVE.add(STRUCT + ".iterate_fields_with_offsets", _gen_iter("struct"), _build_iter)
NATIVE.add(UNION + ".iterate_fields_with_offsets", _gen_iter("union"), _build_iter)
NATIVE.add(DELIMITED + ".iterate_fields_with_offsets", _gen_iter("delim"), _build_iter)
NATIVE.add(FIXED + ".enumerate_elements_with_offsets", _gen_iter("fix"), _build_iter)


def _gen_builder(rng, i):
    n = rng.choice([0, 1, 2, 3])
    return {"union": rng.random() < 0.4, "fields": [(["void", rng.choice([1, 8])] if rng.random() < 0.15 else _g_type(rng, 1))
                                                    for _ in range(n)],
            "consts": rng.sample(["A", "B", "_offset_"], rng.choice([0, 1, 1, 2])),
            "name": rng.choice(["A", "B", "_offset_", "_offset_", "nope"])}


def _schema_builder(desc):
    from pydsdl import _serializable as S, _expression as X
    from pydsdl._data_schema_builder import DataSchemaBuilder

    b = DataSchemaBuilder()
    if desc["union"]:
        b.make_union()
    for j, fd in enumerate(desc["fields"]):
        t = _mk(fd)
        if fd[0] == "void" and desc["union"]:
            continue
        b.add_field(S.PaddingField(t) if fd[0] == "void" else S.Field(t, "f%d" % j))
    u8 = S.UnsignedIntegerType(8, S.PrimitiveType.CastMode.TRUNCATED)
    for k, cn in enumerate(desc["consts"]):
        if cn != "_offset_":
            b.add_constant(S.Constant(u8, cn, X.Rational(k)))
    return b


def _build_offset(desc):
    b = _schema_builder(desc)
    return (lambda: b.offset), {"self": b}


def _build_resolve_top(desc):
    from pydsdl._data_type_builder import DataTypeBuilder
    from .c09 import _stub_classes

    StubDefinition, _ = _stub_classes()
    tb = DataTypeBuilder(StubDefinition("ns.Own", (1, 0)), [], [], lambda line, text: None, True)
    tb._structs[-1] = _schema_builder(desc)
    return (lambda: tb.resolve_top_level_identifier(desc["name"])), {"self": tb, "name": desc["name"]}


NATIVE.add(SCHEMA_BUILDER + ".offset", _gen_builder, _build_offset)
NATIVE.add(TYPE_BUILDER + ".resolve_top_level_identifier", _gen_builder, _build_resolve_top)


def _gen_attr(rng, i):
    return {"type": _g_type(rng, 2), "name": rng.choice(["_bit_length_", "_extent_", "_bit_length_", "x", "_offset_"])}


def _build_attr(composite):
    def build(desc):
        from pydsdl import _expression as X
        from pydsdl import _serializable as S

        t = _mk(desc["type"])
        if composite != isinstance(t, S.CompositeType):
            return None
        nm = X.String(desc["name"])
        return (lambda: t._attribute(nm)), {"self": t, "name": nm}
    return build


NATIVE.add(SERIALIZABLE + "._attribute", _gen_attr, _build_attr(False))
NATIVE.add(COMPOSITE + "._attribute", _gen_attr, _build_attr(True))

NOT_COVERED = []
EXPLANATION = ""
ASSUMPTIONS = []


# ------------------------------------------------------------------------------------------------ bounded: sequences of queries
def extra_offset_sequences(eng, tier, seed):
    """Bounded, native, not counted: the contracts above speak about ONE call; this probe covers what only a SEQUENCE of
    calls can show (hidden state such as a cache): (a) the same type object queried with several base offsets one after the
    other - also bases that BitLengthSet's approximate ==/hash cannot tell apart - must answer each query like a fresh
    object does; (b) `_offset_` evaluated in the request and in the response section of a service, and repeatedly within one
    section, equals the brute-force set of lengths of the fields before that point."""
    import pathlib
    import shutil
    import tempfile
    import pydsdl
    from pydsdl import BitLengthSet
    from pydsdl import _serializable as S

    CM = S.PrimitiveType.CastMode
    u = lambda n: S.UnsignedIntegerType(n, CM.TRUNCATED)
    violations, checked = [], 0

    def struct(name, *types):
        return S.StructureType(name="ns." + name, version=S.Version(1, 0),
                               attributes=[S.Field(t, "f%d" % i) for i, t in enumerate(types)], deprecated=False,
                               fixed_port_id=None, source_file_path=pathlib.Path("/tmp/ns/%s.1.0.dsdl" % name),
                               has_parent_service=False)

    def mk_types():
        var = struct("Var", S.VariableLengthArrayType(u(8), 2))
        return [S.FixedLengthArrayType(u(3), 4), S.FixedLengthArrayType(var, 4),
                struct("Outer", u(1), u(16), var, u(5), S.FixedLengthArrayType(var, 2)),
                S.UnionType(name="ns.U", version=S.Version(1, 0), attributes=[S.Field(u(8), "a"), S.Field(var, "b")],
                            deprecated=False, fixed_port_id=None, source_file_path=pathlib.Path("/tmp/ns/U.1.0.dsdl"),
                            has_parent_service=False),
                S.DelimitedType(struct("D", u(8), var), 64)]

    bases = [BitLengthSet(0), BitLengthSet({8, 40, 72, 104}), BitLengthSet({8, 40, 104}), BitLengthSet({8, 104}),
             BitLengthSet({3, 35}), BitLengthSet({3, 35, 67}), BitLengthSet(1), BitLengthSet({0, 8})]

    def answer(t, b):
        it = t.enumerate_elements_with_offsets(b) if isinstance(t, S.FixedLengthArrayType) else t.iterate_fields_with_offsets(b)
        return [(str(k), frozenset(o)) for k, o in it]

    for idx in range(len(mk_types())):
        shared = mk_types()[idx]
        for b in bases + bases[::-1]:
            fresh = mk_types()[idx]
            checked += 1
            if answer(shared, b) != answer(fresh, b):
                violations.append({"name": "native/offsets-independent-of-earlier-queries",
                                   "concrete": {"type": str(shared), "base": sorted(b)},
                                   "detail": "a type object that answered other base offsets before gives %r, a fresh one %r"
                                             % (answer(shared, b)[:3], answer(fresh, b)[:3])})
                break
        if violations:
            break

    # (b) _offset_ in services and repeated queries
    d = pathlib.Path(tempfile.mkdtemp(prefix="c08-seq-"))
    try:
        (d / "ns").mkdir()
        texts = {
            "Svc.1.0.dsdl": ("uint8 a\n@assert _offset_ == {8}\nuint8[<=2] b\n@assert _offset_ == {16, 24, 32}\n@assert _offset_ == {16, 24, 32}\n"
                             "@sealed\n---\nuint16[<=2] x\n@assert _offset_ == {8, 24, 40}\nuint8 y\n@assert _offset_ == {16, 32, 48}\n@sealed\n"),
            "Msg.1.0.dsdl": ("@assert _offset_ == {0}\nbool[<=3] f\n@assert _offset_ == {8, 9, 10, 11}\nvoid3\n@assert _offset_ == {11, 12, 13, 14}\n"
                             "uint8 g\n@assert _offset_ == {19, 20, 21, 22}\n@sealed\n"),
            "Uni.1.0.dsdl": ("@union\nuint8 a\nuint16[<=1] b\n@assert _offset_ == {16, 32}\n@assert _offset_ == {16, 32}\n@sealed\n"),
        }
        for n, tx in texts.items():
            (d / "ns" / n).write_text(tx)
        try:
            pydsdl.read_namespace(d / "ns", [])
            checked += len(texts)
        except pydsdl.FrontendError as ex:
            violations.append({"name": "native/offset-intrinsic-in-sections", "concrete": {"files": texts},
                               "detail": "%s: %s" % (type(ex).__name__, str(ex)[:300])})
    finally:
        shutil.rmtree(d, ignore_errors=True)
    return {"check": "offset queries in sequence: several bases on one object; _offset_ in both sections of a service "
                     "(bounded, native)", "queries": checked, "violations": violations[:1]}


EXTRA_CHECKS = list(globals().get("EXTRA_CHECKS", [])) + [extra_offset_sequences]


# effect obligations (AST, complete for what they state): no memoising decorator, no module-level state - see specs/common.py
from .common import no_hidden_state_check as _no_hidden_state_check  # noqa: E402
EXTRA_CHECKS = list(globals().get("EXTRA_CHECKS", [])) + [_no_hidden_state_check(
    ["pydsdl._serializable._array", "pydsdl._serializable._composite", "pydsdl._data_schema_builder",
     # the in-language intrinsics _bit_length_ / _extent_ / _offset_ live in SerializableType._attribute,
     # CompositeType._attribute and DataTypeBuilder.resolve_top_level_identifier
     "pydsdl._serializable._serializable", "pydsdl._data_type_builder"],
    "the offset iterators, the layout intrinsics and the schema builder")]
