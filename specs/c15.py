"""
C15 - A type's name, version and port-ID are exactly those encoded in its file path.

Covered: (a) the basename-parsing block of DSDLDefinition.__init__, cut out mechanically by AST position (the top-level
statements after the assignment of `relative_path` up to the assignment of `self._cached_type`) and verified as a function
of the pure path `relative_path` (= <root namespace directory name>/<path of the file relative to the root>);
(b) the directory-consistency check of CompositeType.__init__ (search_up_for_root) - stated in specs/c05.py.
"""
import z3
from pyvc import strmodel
from pyvc.spec import contract, class_spec
from pyvc.values import Int, Bool, Str, Opt, SeqOf, ObjOf, PathK, Rec
from pyvc.speclib import AND, OR, NOT, IMPLIES, IFF, ITE, EQ, IS_NONE, VAL, FORALL_IDX, EXISTS_IDX, LEN, AT, smt
from pyvc import speclib
from .common import VersionK
from . import c05  # noqa  check_name / CompositeType.__init__ / search_up_for_root contracts (props include C15)

strmodel.enable()
P = ["C15"]
LEVEL = "proof"
DEF = "pydsdl._dsdl_definition.DSDLDefinition"
NAME_MAX = 255  # longest file name of the supported file systems (bytes, hence characters)


@class_spec(DEF)
class _DefinitionSpec:
    fields = dict(_name=Str, _version=VersionK, _fixed_port_id=Opt(Int))


def _lib():
    return speclib.CTX.engine.lib


def BASENAME(p):
    return _lib().path_attr(speclib.CTX, p, "name") if smt() else p.name


def DIRS(p):
    """the directories of the relative path, root namespace directory first"""
    if smt():
        return _lib().path_attr(speclib.CTX, _lib().path_attr(speclib.CTX, p, "parent"), "parts")
    return list(p.parent.parts)


def PARTS(name):
    return _lib().split_seq(speclib.CTX, name, ".") if smt() else name.split(".")


def IS_DECIMAL(x):
    """a decimal number: one or more of the digits 0-9"""
    if smt():
        return z3.InRe(x, z3.Plus(z3.Range(z3.StringVal("0"), z3.StringVal("9"))))
    return len(x) > 0 and all(c in "0123456789" for c in x)


def NUM(x):
    if smt():
        return z3.StrToInt(x)
    return int(x)


def WELL_FORMED(p):
    """basename = [<port>.]<Short>.<major>.<minor>.<ext> with decimal numbers, directories without '.'"""
    parts = PARTS(BASENAME(p))
    n = LEN(parts)
    dirs = DIRS(p)
    nodot = FORALL_IDX(dirs, lambda i, d: NOT(z3.Contains(d, z3.StringVal(".")) if smt() else "." in d))
    return AND(OR(n == 4, n == 5),
               lambda: IS_DECIMAL(AT(parts, n - 3)), lambda: IS_DECIMAL(AT(parts, n - 2)),
               lambda: IMPLIES(n == 5, lambda: IS_DECIMAL(AT(parts, 0))), nodot)


@contract(DEF + ".__init__@basename", props=P)
class _Basename:
    body_slice = {"after_assign": "relative_path", "until_assign_attr": "_cached_type", "params": ["relative_path"]}
    params = dict(relative_path=PathK)
    # fields assigned by the dropped prelude (file-system normalisation); only used in error messages
    instances = [{"self._file_path": PathK, "self._root_namespace_path": PathK}]
    raises = {"FileNameFormatError": lambda s: NOT(WELL_FORMED(s.relative_path))}

    def pre(s):
        return {"file-name-length": (z3.Length(BASENAME(s.relative_path)) if smt() else len(s.relative_path.name)) <= NAME_MAX}

    def post(s):
        p = s.relative_path
        parts = PARTS(BASENAME(p))
        n = LEN(parts)
        dirs = DIRS(p)
        comps = PARTS(s.self._name)
        return {
            "well-formed": WELL_FORMED(p),
            "version": AND(s.self._version.major == NUM(AT(parts, n - 3)), s.self._version.minor == NUM(AT(parts, n - 2))),
            "port-id": ITE(n == 5, AND(NOT(IS_NONE(s.self._fixed_port_id)), lambda: VAL(s.self._fixed_port_id) == NUM(AT(parts, 0))),
                           IS_NONE(s.self._fixed_port_id)),
            # the full name is the directories followed by the short name, separated by '.'
            "name-components": AND(LEN(comps) == LEN(dirs) + 1,
                                   FORALL_IDX(dirs, lambda i, d: AT(comps, i) == d),
                                   AT(comps, LEN(dirs)) == AT(parts, n - 4)),
        }


NOT_COVERED = []
EXPLANATION = ""
