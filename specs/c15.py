"""
C15 - A type's name, version and port-ID are exactly those encoded in its file path.

Covered:
 (a) the basename-parsing block of DSDLDefinition.__init__, cut out mechanically by AST position (`body_slice`: the
     top-level statements after the assignment of `relative_path` up to the assignment of `self._cached_type`; dropped: the
     resolve()/exists() prelude, which only produces `relative_path`) and verified as a function of the pure path
     `relative_path` = <root namespace directory name>/<path of the file relative to the root>.
     Finite instantiation over the *shape* of the basename: exactly 4 / exactly 5 dot-separated components (the components
     are separate string variables that contain no '.'; `'.'.join` / `split('.')` are mutually inverse there - assumed),
     or any other number of components (symbolic).  Directories: a symbolic sequence of any length.
 (b) the directory-consistency check of CompositeType.__init__ (search_up_for_root) - stated and verified in specs/c05.py.

Oracle (statement): accepted iff basename = [<port>.]<Short>.<major>.<minor>.<ext> with *decimal numbers* ([0-9]+) and no
directory name contains '.'; then full_name = '.'.join(dirs + [Short]), version and fixed_port_id are those numbers.
`int(str)` is modelled as "accepts exactly Python's integer-literal syntax" (pyvc/strmodel.py).
"""
import z3
from pyvc import strmodel
from pyvc.spec import contract, class_spec, REG
from pyvc.values import Int, Bool, Str, Opt, SeqOf, ObjOf, PathK, Rec, Kind, PathV, JoinedStr, PathSort, SymSeq, PyList
from pyvc.speclib import AND, OR, NOT, IMPLIES, IFF, ITE, EQ, IS_NONE, VAL, FORALL_IDX, EXISTS_IDX, LEN, AT, smt
from pyvc import speclib
from .common import VersionK
from . import c05  # noqa  check_name / CompositeType.__init__ / search_up_for_root contracts (props include C15)

strmodel.enable()
P = ["C15"]
LEVEL = "proof"
DEF = "pydsdl._dsdl_definition.DSDLDefinition"
NAME_MAX = 255  # longest file name of the supported file systems; also keeps int() below its 4300-digit limit


@class_spec(DEF)
class _DefinitionSpec:
    fields = dict(_name=Str, _version=VersionK, _fixed_port_id=Opt(Int))


def _lib():
    return speclib.CTX.engine.lib


class RelPathK(Kind):
    """The relative path of a definition file: directories = a symbolic sequence of strings; basename = `ncomp` dot-separated
    components given as separate string variables without '.', or (ncomp None) any string whose number of components is
    neither 4 nor 5."""

    def __init__(self, ncomp):
        self.ncomp = ncomp

    def build(self, ctx, mk):
        term = mk("", PathSort)
        dot = z3.StringVal(".")
        if self.ncomp is None:
            name = mk("!name", z3.StringSort())
            n = ctx.engine.lib.split_seq(ctx, name, ".").length
            ctx.assume(z3.And(n != 4, n != 5, z3.Length(name) <= NAME_MAX))
        else:
            comps = [mk("!c%d" % k, z3.StringSort()) for k in range(self.ncomp)]
            for c in comps:
                ctx.assume(z3.Not(z3.Contains(c, dot)))
            name = JoinedStr(comps, ".")
            ctx.assume(z3.Length(name.term) <= NAME_MAX)
        dirs = SeqOf(Str).build(ctx, lambda s, so: mk("!dirs" + s, so))
        parent = PathV(mk("!parent", PathSort), {"parts": dirs})
        return PathV(term, {"name": name, "parent": parent})

    def __repr__(self):
        return "%s-components" % (self.ncomp if self.ncomp is not None else "other-number-of")


def BASENAME_PARTS(p):
    """the dot-separated components of the file name"""
    if smt():
        name = _lib().path_attr(speclib.CTX, p, "name")
        if isinstance(name, JoinedStr):
            return PyList(list(name.parts))
        return _lib().split_seq(speclib.CTX, name, ".")
    return p.name.split(".")


def DIRS(p):
    """the directories of the relative path, root namespace directory first"""
    if smt():
        return _lib().path_attr(speclib.CTX, _lib().path_attr(speclib.CTX, p, "parent"), "parts")
    return list(p.parent.parts)


def PARTS(name):
    """shared definition: specs/names.py NAME_PARTS"""
    from .names import NAME_PARTS

    return NAME_PARTS(name)


def IS_DECIMAL(x):
    """a decimal number: one or more of the digits 0-9"""
    if smt():
        return z3.InRe(Str.unwrap(x), z3.Plus(z3.Range(z3.StringVal("0"), z3.StringVal("9"))))
    return len(x) > 0 and all(c in "0123456789" for c in x)


def NUM(x):
    if smt():
        return z3.StrToInt(Str.unwrap(x))
    return int(x)


def HAS_DOT(d):
    return z3.Contains(Str.unwrap(d), z3.StringVal(".")) if smt() else "." in d


def REJECTED(p):
    """not of the form [<port>.]<Short>.<major>.<minor>.<ext> with decimal numbers below directories without '.':
    one disjunct per reason"""
    parts = BASENAME_PARTS(p)
    n = LEN(parts)
    if smt() and not isinstance(n, int):
        return NOT(OR(n == 4, n == 5))  # the symbolic instance: another number of components
    if n not in (4, 5):
        return True
    return OR(NOT(IS_DECIMAL(AT(parts, n - 3))), NOT(IS_DECIMAL(AT(parts, n - 2))),
              (NOT(IS_DECIMAL(AT(parts, 0))) if n == 5 else False),
              EXISTS_IDX(DIRS(p), lambda i, d: HAS_DOT(d)))


@contract(DEF + ".__init__@basename", props=P)
class _Basename:
    body_slice = {"after_assign": "relative_path", "until_assign_attr": "_cached_type", "params": ["relative_path"],
                  # fields assigned by the dropped prelude (file-system normalisation); only used in error messages
                  "self_fields": {"_file_path": PathK, "_root_namespace_path": PathK}}
    instances = [{"relative_path": RelPathK(n)} for n in (4, 5, None)]  # the shape of the basename
    raises = {"FileNameFormatError": lambda s: REJECTED(s.relative_path)}

    def post(s):
        p = s.relative_path
        parts = BASENAME_PARTS(p)
        n = LEN(parts)
        if smt() and not isinstance(n, int):
            return {"accepted-only-with-4-or-5-components": False}
        dirs = DIRS(p)
        comps = PARTS(s.self._name)
        return {
            "major-is-decimal": IS_DECIMAL(AT(parts, n - 3)),
            "minor-is-decimal": IS_DECIMAL(AT(parts, n - 2)),
            "port-id-is-decimal": IS_DECIMAL(AT(parts, 0)) if n == 5 else True,
            "version": AND(s.self._version.major == NUM(AT(parts, n - 3)), s.self._version.minor == NUM(AT(parts, n - 2))),
            "port-id": (AND(NOT(IS_NONE(s.self._fixed_port_id)), lambda: VAL(s.self._fixed_port_id) == NUM(AT(parts, 0)))
                        if n == 5 else IS_NONE(s.self._fixed_port_id)),
            # the full name is the directories followed by the short name, separated by '.'
            "name-components": AND(LEN(comps) == LEN(dirs) + 1,
                                   FORALL_IDX(dirs, lambda i, d: AT(comps, i) == d),
                                   AT(comps, LEN(dirs)) == AT(parts, n - 4)),
        }


# ------------------------------------------------------------------------------------------------ name accessors
# full_name is the stored name (inlined); the other accessors are functions of its '.'-separated components, which
# `__init__@basename` ties to the directories and the short name of the file (post#name-components).  The definitions are
# shared (specs/names.py): specs/c09.py states the interface contracts of the abstract DSDLFile accessors over the same
# functions, so what is proved here about DSDLDefinition is exactly what C09 assumes of a definition object.
def _seq_eq(a, b):
    return c05._seq_eq_str(a, b)


@contract(DEF + ".name_components", props=P)
class _DefNameComponents:
    returns = SeqOf(Str)

    def post(s):
        return {"the-components-of-the-full-name": _seq_eq(s.result, PARTS(s.self._name))}


@contract(DEF + ".short_name", props=P)
class _DefShortName:
    returns = Str

    def post(s):
        from .names import SHORT_NAME_OF

        return {"last-component": EQ(s.result, SHORT_NAME_OF(s.self._name))}


@contract(DEF + ".root_namespace", props=P)
class _DefRootNamespace:
    returns = Str

    def post(s):
        from .names import ROOT_NAMESPACE_OF

        return {"first-component": EQ(s.result, ROOT_NAMESPACE_OF(s.self._name))}


@contract(DEF + ".full_namespace", props=P)
class _DefFullNamespace:
    returns = Str

    def post(s):
        from .names import IS_NAMESPACE_OF

        return {"components-are-all-but-the-last": IS_NAMESPACE_OF(s.result, s.self._name)}


def _register_parse_decimal():
    """`_parse_decimal_number` exists only in a tree with the fix notes/C15-fix-1.patch (strict decimal parsing)."""
    from pyvc.frontend import load_repo

    q = "pydsdl._dsdl_definition._parse_decimal_number"
    if q not in load_repo().functions:
        return False

    @contract(q, props=P)
    class _ParseDecimal:
        params = dict(text=Str)
        returns = Int
        raises = {"ValueError": lambda s: NOT(IS_DECIMAL(s.text))}

        def pre(s):
            return {"shorter-than-the-int-digit-limit": (z3.Length(s.text) if smt() else len(s.text)) <= NAME_MAX}

        def post(s):
            return {"decimal-value": s.result == NUM(s.text)}

    return True


STRICT_PARSER_PRESENT = _register_parse_decimal()


# ------------------------------------------------------------------------------------------------ native harness
from pyvc.native import NativeSuite  # noqa: E402

NATIVE = NativeSuite()
NATIVE_BUDGET = {"quick": 300, "thorough": 3000}
_BASENAMES = ["Foo.1.0.dsdl", "7509.Foo.1.0.dsdl", "Foo.+1.0.dsdl", "Foo.1_0.0.dsdl", "Foo. 1.0.dsdl", "Foo.١.0.dsdl",
              "+7509.Foo.1.0.dsdl", "Foo.1.-0.dsdl", "Foo.1.0", "Foo.dsdl", "a.b.Foo.1.0.dsdl", "Foo.1.0.dsdl.bak", "Foo.x.0.dsdl",
              "Foo.1..dsdl", ".Foo.1.0.dsdl", "Foo.01.00.dsdl", "1_0.Foo.1.0.dsdl", "Foo.1.0.", "x.Foo.1.0.dsdl", "Foo.１.0.dsdl",
              "Foo.1.0 .dsdl", "Foo.255.255.uavcan"]


def _gen_path(rng, i):
    base = _BASENAMES[i] if i < len(_BASENAMES) else ".".join(
        rng.choice(["Foo", "1", "0", "+1", "1_0", " 2", "x", "", "42", "٣"]) for _ in range(rng.choice([3, 4, 4, 5, 5, 6])))
    dirs = rng.choice([["ns"], ["ns", "sub"], ["ns", "a.b"], ["ns", "x", "y"]])
    return {"dirs": dirs, "base": base}


def _build_basename(desc):
    import ast as _ast
    import inspect
    import textwrap
    from pathlib import PurePosixPath
    from pydsdl import _dsdl_definition as M

    # the same mechanical slice, executed natively: statements after `relative_path = ...` up to `self._cached_type = ...`
    src = textwrap.dedent(inspect.getsource(M.DSDLDefinition.__init__))
    fn = _ast.parse(src).body[0]
    start = end = None
    for k, st in enumerate(fn.body):
        tg = st.targets if isinstance(st, _ast.Assign) else [st.target] if isinstance(st, _ast.AnnAssign) else []
        for t in tg:
            if isinstance(t, _ast.Name) and t.id == "relative_path" and start is None:
                start = k + 1
            if isinstance(t, _ast.Attribute) and t.attr == "_cached_type" and start is not None and end is None:
                end = k
    fn.body = fn.body[start:end]
    fn.args.args = [_ast.arg(arg="self"), _ast.arg(arg="relative_path")]
    fn.name = "_basename_slice"
    mod = _ast.Module(body=[fn], type_ignores=[])
    _ast.fix_missing_locations(mod)
    ns = dict(vars(M))
    exec(compile(mod, "<slice of DSDLDefinition.__init__>", "exec"), ns)
    rel = PurePosixPath(*desc["dirs"]) / desc["base"]

    class _Obj:
        pass

    obj = _Obj()
    obj._file_path = rel
    obj._root_namespace_path = PurePosixPath(desc["dirs"][0])

    def call():
        ns["_basename_slice"](obj, rel)
        return obj

    return call, {"relative_path": rel, "self": obj}


NATIVE.add(DEF + ".__init__@basename", _gen_path, _build_basename)

# the name accessors of a real DSDLDefinition (constructed from a real file in a scratch directory): names in which a
# namespace component equals, or starts with, the short name (ns/Foo/Foo.1.0.dsdl, fleet/Motors/Motor.1.0.dsdl) included
_NS_SHAPES = [["ns"], ["ns", "sub"], ["fleet", "Motors"], ["ns", "Foo"], ["Foo", "Foo"], ["a", "b", "a"], ["ab", "a", "abc"]]
_SHORTS = ["Foo", "Motor", "a", "ab", "sub", "ns", "X"]


def _gen_def_name(rng, i):
    return {"dirs": _NS_SHAPES[i % len(_NS_SHAPES)] if i < 3 * len(_NS_SHAPES) else rng.choice(_NS_SHAPES),
            "short": _SHORTS[(i // len(_NS_SHAPES)) % len(_SHORTS)] if i < 3 * len(_NS_SHAPES) else rng.choice(_SHORTS),
            "port": rng.choice([None, None, 7000])}


def _build_def_accessor(member):
    def build(desc):
        import shutil
        import tempfile
        from pathlib import Path
        from pydsdl import _dsdl_definition as M

        top = Path(tempfile.mkdtemp(prefix="c15-name-")).resolve()
        try:
            d = top.joinpath(*desc["dirs"])
            d.mkdir(parents=True)
            f = d / ("%s%s.1.0.dsdl" % ("" if desc["port"] is None else "%d." % desc["port"], desc["short"]))
            f.write_text("@sealed\n")
            obj = M.DSDLDefinition(f, top / desc["dirs"][0])
        finally:
            shutil.rmtree(top, ignore_errors=True)
        return (lambda: getattr(obj, member)), {"self": obj}
    return build


for _member in ("full_namespace", "short_name", "root_namespace", "name_components"):
    if (DEF + "." + _member) in REG.contracts:
        NATIVE.add(DEF + "." + _member, _gen_def_name, _build_def_accessor(_member))

NOT_COVERED = [
    "the four root-inference strategies of read_files / DSDLDefinition.from_first_in and every claim about relative / "
    "absolute / symlink spellings (file-system calls interleaved with the logic)",
    "the resolve()/exists() prelude of DSDLDefinition.__init__ (dropped by the slice) and that `relative_path` is the path "
    "relative to the root namespace directory (pathlib)",
    "source_file_path / source_file_path_to_root accessors (return what was stored)",
]
EXPLANATION = ("The basename block of DSDLDefinition.__init__ (mechanical AST slice) raises FileNameFormatError iff the file name "
               "is not [<port>.]<Short>.<major>.<minor>.<ext> with decimal numbers below directories without '.'; on acceptance "
               "version / port-ID are the decimal values and the full name's components are the directories followed by the "
               "short name.  The directory-consistency check of CompositeType.__init__ is verified in specs/c05.py.")
ASSUMPTIONS = ["str.join / str.split with a one-character separator are mutually inverse on sequences whose elements do not "
               "contain it", "file names are at most 255 characters long (int() digit limit not reached)"]


# ------------------------------------------------------------------------------------------------ bounded: path to root
def extra_path_to_root(eng, tier, seed):
    """Bounded, native, not counted: source_file_path / source_file_path_to_root of a composite point back to the file and
    to the root namespace directory, also when a nested namespace component repeats the name of the root or of another
    component (the directory walk must go up exactly len(namespace components) levels)."""
    from pathlib import Path
    from pydsdl import _serializable as S

    violations, checked = [], 0
    cases = [("alpha.Tp", "/x/alpha/Tp.1.0.dsdl", "/x/alpha"), ("alpha.alpha.Tp", "/x/alpha/alpha/Tp.1.0.dsdl", "/x/alpha"),
             ("alpha.beta.alpha.Tp", "/x/alpha/beta/alpha/Tp.1.0.dsdl", "/x/alpha"),
             ("a.a.a.Tp", "/r/a/a/a/Tp.1.0.dsdl", "/r/a"), ("ns.sub.ns.sub.T", "/ns/sub/ns/sub/T.1.0.dsdl", "/ns"),
             ("a.b.Tp", "/q/a/a/b/Tp.1.0.dsdl", "/q/a/a"), ("alpha.Tp", "alpha/Tp.1.0.dsdl", "alpha")]
    for name, path, root in cases:
        for has_parent in (False, True):
            nm = name + ".Request" if has_parent else name
            try:
                t = S.StructureType(name=nm, version=S.Version(1, 0), attributes=[], deprecated=False, fixed_port_id=None,
                                    source_file_path=Path(path), has_parent_service=has_parent)
            except Exception as ex:
                violations.append({"name": "native/path-to-root", "concrete": {"name": nm, "path": path},
                                   "detail": "rejected: %s: %s" % (type(ex).__name__, ex)})
                continue
            checked += 1
            if t.source_file_path != Path(path) or t.source_file_path_to_root != Path(root):
                violations.append({"name": "native/path-to-root", "concrete": {"name": nm, "path": path},
                                   "detail": "source_file_path_to_root = %s, expected %s" % (t.source_file_path_to_root, root)})
    return {"check": "source_file_path_to_root on repeated namespace components (bounded, native)", "cases": checked,
            "violations": violations[:1]}


EXTRA_CHECKS = list(globals().get("EXTRA_CHECKS", [])) + [extra_path_to_root]


# ------------------------------------------------------------------------------------------------ bounded: spelling probe
from .fsprobe import extra_spelling_probe  # noqa: E402  (shared with C10)

EXTRA_CHECKS = EXTRA_CHECKS + [extra_spelling_probe]
