"""
C12 - Constants are always compliant with their declared type.

Oracle: `compliant(T, v)` and the value ranges LO/HI/MAG are transcribed from the property statement (two's complement
ranges, IEEE 754 largest finite values), not from the code.
"""
import z3
from pyvc.spec import contract, class_spec
from pyvc.values import Int, Bool, Str, Frac, ObjOf, Rec, Const
from pyvc.speclib import AND, OR, NOT, IMPLIES, IFF, ITE, EQ, ISINST, AS, smt
from pyvc import speclib
from .common import (SERIALIZABLE, ANY, SIGNED_T, UNSIGNED_T, FLOAT_T, INTEGER_T, BOOLEAN_T, ARITHMETIC_T, CONSTANT,
                     ATTRIBUTE, MAG, FRAC, POW2, RATIONAL_X)

P = ["C12"]
ValueRangeK = Rec("ValueRange", min=Frac, max=Frac)


# ------------------------------------------------------------------------------------------------ oracle
PRIM = "pydsdl._serializable._primitive.PrimitiveType"


def width(t):
    return AS(t, PRIM).bit_length


def LO(t):
    """Least value of an integer type: -2**(n-1) (two's complement) for signed, 0 for unsigned."""
    n = width(t)
    return ITE(ISINST(t, "SignedIntegerType"), -POW2(n - 1), 0)


def HI(t):
    n = width(t)
    return ITE(ISINST(t, "SignedIntegerType"), POW2(n - 1) - 1, POW2(n) - 1)


def is_rational(v):
    return ISINST(v, "pydsdl._expression._primitive.Rational")


def is_boolean_value(v):
    return ISINST(v, "pydsdl._expression._primitive.Boolean")


def is_string(v):
    return ISINST(v, "pydsdl._expression._primitive.String")


RAT = "pydsdl._expression._primitive.Rational"
STR = "pydsdl._expression._primitive.String"


def num(v):
    x = AS(v, RAT)._value
    if smt():
        from pyvc.values import FractionV

        if not isinstance(x, (FractionV, z3.ExprRef)) or (isinstance(x, z3.ExprRef) and not (z3.is_real(x) or z3.is_int(x))):
            return z3.RealVal(0)  # a materialised object of another class: the is_rational guard is concretely false
    return FRAC(x)


def is_integral(x):
    if smt():
        return z3.IsInt(x)
    return x.denominator == 1


def _strval(sv):
    s = AS(sv, STR)._value
    if isinstance(s, str):
        return z3.StringVal(s)
    if isinstance(s, z3.ExprRef) and z3.is_string(s):
        return s
    return None  # a materialised object of another class: the is_string guard is concretely false


def one_ascii_char(sv):
    """a one-character ASCII string literal"""
    if smt():
        s = _strval(sv)
        if s is None:
            return False
        return AND(z3.Length(s) == 1, z3.StrToCode(s) < 128)
    s = sv._value
    return len(s) == 1 and ord(s) < 128


def code_point(sv):
    if smt():
        s = _strval(sv)
        return z3.StrToCode(s) if s is not None else z3.IntVal(-1)
    return ord(sv._value)


def is_uint8(t):
    return AND(ISINST(t, "UnsignedIntegerType"), lambda: width(t) == 8)


def to_num(i):
    if smt():
        from pyvc.values import Real

        return Real.unwrap(i)
    return i


def compliant(t, v):
    """Statement: a boolean for bool, an integer within the inclusive range of the integer type, an exact rational
    within +-(largest finite value) of the float type; a one-character ASCII string only for 8-bit unsigned integers."""
    return OR(
        AND(ISINST(t, "BooleanType"), is_boolean_value(v)),
        AND(ISINST(t, "IntegerType"), is_rational(v),
            lambda: AND(is_integral(num(v)), to_num(LO(t)) <= num(v), num(v) <= to_num(HI(t)))),
        AND(ISINST(t, "IntegerType"), is_string(v), lambda: AND(one_ascii_char(v), is_uint8(t))),
        AND(ISINST(t, "FloatType"), is_rational(v), lambda: AND(-MAG(width(t)) <= num(v), num(v) <= MAG(width(t)))),
    )


def carries_constants(t):
    """only boolean, integer and float types can carry constants"""
    return ISINST(t, "BooleanType", "IntegerType", "FloatType")


# ------------------------------------------------------------------------------------------------ value ranges
def _range_min(r):
    return FRAC(r.min)


def _range_max(r):
    return FRAC(r.max)


@contract(ARITHMETIC_T + ".inclusive_value_range", props=["C12", "C06"])
class _RangeIface:
    """Interface contract of ArithmeticType.inclusive_value_range; the three overrides are verified below."""
    returns = ValueRangeK
    verify = False
    assumed = "interface contract; each override (Signed/Unsigned/Float) is obligated to it below"

    def post(s):
        t = s.self
        return {
            "int-range": IMPLIES(ISINST(t, "IntegerType"),
                                 lambda: AND(_range_min(s.result) == to_num(LO(t)), _range_max(s.result) == to_num(HI(t)))),
            "float-range": IMPLIES(ISINST(t, "FloatType"),
                                   lambda: AND(_range_min(s.result) == -MAG(t.bit_length),
                                               _range_max(s.result) == MAG(t.bit_length))),
        }


@contract(SIGNED_T + ".inclusive_value_range", props=P)
class _SignedRange:
    # finite instantiation: every admissible width (a complete proof over the width, not a bound)
    instances = lambda: [{"self._bit_length": n} for n in range(2, 65)]

    def post(s):
        n = s.self.bit_length
        return {"min": _range_min(s.result) == -(2 ** (n - 1)), "max": _range_max(s.result) == 2 ** (n - 1) - 1}


@contract(UNSIGNED_T + ".inclusive_value_range", props=P)
class _UnsignedRange:
    instances = lambda: [{"self._bit_length": n} for n in range(1, 65)]
    self_classes = ["UnsignedIntegerType", "ByteType", "UTF8Type"]

    def post(s):
        n = s.self.bit_length
        return {"min": _range_min(s.result) == 0, "max": _range_max(s.result) == 2 ** n - 1}


@contract(FLOAT_T + ".inclusive_value_range", props=P)
class _FloatRange:
    def post(s):
        n = s.self.bit_length
        return {"min": _range_min(s.result) == -MAG(n), "max": _range_max(s.result) == MAG(n)}


@contract(FLOAT_T + ".__init__", props=["C12", "C05"])
class _FloatInit:
    params = dict(bit_length=Int)
    raises = {
        "InvalidBitLengthError": lambda s: NOT(OR(s.bit_length == 16, s.bit_length == 32, s.bit_length == 64)),
    }

    def post(s):
        return {"width": s.self._bit_length == s.bit_length, "cast-mode": EQ(s.self._cast_mode, s.cast_mode)}


@contract("pydsdl._serializable._primitive.ArithmeticType.__init__", props=["C12", "C05"])
class _ArithInit:
    """ArithmeticType.__init__ only forwards to PrimitiveType.__init__ (contract stated here, verified under C05)."""
    params = dict(bit_length=Int)
    raises = {"InvalidBitLengthError": lambda s: NOT(AND(1 <= s.bit_length, s.bit_length <= 64))}

    def post(s):
        return {"width": s.self._bit_length == s.bit_length, "cast-mode": EQ(s.self._cast_mode, s.cast_mode)}


@contract("pydsdl._serializable._primitive.PrimitiveType.__init__", props=["C12", "C05"])
class _PrimInit:
    params = dict(bit_length=Int)
    raises = {"InvalidBitLengthError": lambda s: NOT(AND(1 <= s.bit_length, s.bit_length <= 64))}

    def post(s):
        return {"width": s.self._bit_length == s.bit_length, "cast-mode": EQ(s.self._cast_mode, s.cast_mode)}


# ------------------------------------------------------------------------------------------------ Attribute / Constant
@contract(ATTRIBUTE + ".__init__", props=["C05"])
class _AttributeInit:
    """Used (not verified) here: names are C05's business; for C12 the name check may fail independently."""
    params = dict(data_type=ObjOf(SERIALIZABLE), name=Str, doc=Str)
    raises = {"InvalidNameError": None}

    def post(s):
        return {"type": s.self._data_type.ref == s.data_type.ref if smt() else s.self._data_type is s.data_type,
                "name": EQ(s.self._name, s.name)}


@contract(CONSTANT + ".__init__", props=P)
class _ConstantInit:
    params = dict(data_type=ObjOf(SERIALIZABLE), name=Str, value=ObjOf(ANY), doc=Str)
    raises = {
        "InvalidNameError": None,  # from Attribute.__init__ (C05)
        "InvalidTypeError": lambda s: AND(ISINST(s.value, "pydsdl._expression._primitive.Primitive"),
                                          NOT(carries_constants(s.data_type))),
        "InvalidConstantValueError": lambda s: OR(
            NOT(ISINST(s.value, "pydsdl._expression._primitive.Primitive")),
            AND(carries_constants(s.data_type), NOT(compliant(s.data_type, s.value)))),
    }

    def post(s):
        t, v, stored = s.data_type, s.value, s.self._value
        return {
            # a constant initializer is accepted if and only if it satisfies the rules
            "accepted-only-if-compliant": compliant(t, v),
            # never rounded or converted: the stored value is the given one ...
            "stored-as-given": IMPLIES(NOT(is_string(v)), stored.ref == v.ref if smt() else stored is v),
            # ... except the one-character string, stored as its code point
            "string-stored-as-code-point": IMPLIES(is_string(v), lambda: AND(is_rational(stored),
                                                                            num(stored) == to_num(code_point(v)))),
            "stored-compliant": compliant(t, stored),
        }


# ------------------------------------------------------------------------------------------------ native harness
from pyvc.native import NativeSuite

NATIVE = NativeSuite()
LEVEL = "proof"


def _mk_type(d):
    from pydsdl import _serializable as S

    cm = S.PrimitiveType.CastMode.SATURATED if d.get("cast", "s") == "s" else S.PrimitiveType.CastMode.TRUNCATED
    k = d["k"]
    if k == "bool":
        return S.BooleanType()
    if k == "int":
        return S.SignedIntegerType(d["n"], S.PrimitiveType.CastMode.SATURATED)
    if k == "uint":
        return S.UnsignedIntegerType(d["n"], cm)
    if k == "float":
        return S.FloatType(d["n"], cm)
    if k == "byte":
        return S.ByteType()
    if k == "utf8":
        return S.UTF8Type()
    if k == "void":
        return S.VoidType(d["n"])
    if k == "array":
        return S.FixedLengthArrayType(S.UnsignedIntegerType(8, cm), 3)
    raise ValueError(k)


def _mk_value(d):
    import fractions
    from pydsdl import _expression as X

    k = d["k"]
    if k == "rat":
        return X.Rational(fractions.Fraction(d["num"], d["den"]))
    if k == "bool":
        return X.Boolean(d["v"])
    if k == "str":
        return X.String(d["v"])
    if k == "set":
        return X.Set([X.Rational(1), X.Rational(2)])
    if k == "type":
        return _mk_type({"k": "bool"})
    raise ValueError(k)


def _gen_const(rng, i):
    kinds = ["bool", "int", "uint", "float", "byte", "utf8", "void", "array"]
    k = rng.choice(kinds)
    t = {"k": k, "cast": rng.choice(["s", "t"])}
    if k in ("int",):
        t["n"] = rng.choice([2, 3, 7, 8, 9, 16, 31, 32, 33, 63, 64])
    elif k in ("uint", "void"):
        t["n"] = rng.choice([1, 2, 7, 8, 9, 16, 32, 63, 64])
    elif k == "float":
        t["n"] = rng.choice([16, 32, 64])
    vk = rng.choice(["rat", "rat", "rat", "bool", "str", "set", "type"])
    if vk == "rat":
        n = t.get("n", 8)
        base = rng.choice([0, 1, -1, 2 ** n - 1, 2 ** n, 2 ** (n - 1), 2 ** (n - 1) - 1, -(2 ** (n - 1)), -(2 ** (n - 1)) - 1,
                           65504, 65505, -65504, 2 ** 128, rng.randrange(-300, 300)])
        den = rng.choice([1, 1, 1, 2, 3])
        v = {"k": "rat", "num": base * den + (rng.choice([0, 0, 1, -1]) if den > 1 else 0), "den": den}
    elif vk == "bool":
        v = {"k": "bool", "v": rng.random() < 0.5}
    elif vk == "str":
        v = {"k": "str", "v": rng.choice(["", "a", "Z", "ab", "\x7f", "\x80", "é", "€", "\ud800", "a\ud800", "\udfffz", "\ud800\udc00", "\U0001f600"])}
    else:
        v = {"k": vk}
    return {"type": t, "value": v}


def _build_const(desc):
    from pydsdl import _serializable as S

    t = _mk_type(desc["type"])
    v = _mk_value(desc["value"])
    return (lambda: S.Constant(t, "X", v)), {"data_type": t, "name": "X", "value": v, "doc": ""}


NATIVE.add(CONSTANT + ".__init__", _gen_const, _build_const)

NOT_COVERED = [
    "that the reader hands every constant statement of a definition to Constant.__init__ (statement commit "
    "protocol: C03)",
    "Attribute.__init__/check_name (names): C05",
]
EXPLANATION = ("Constant.__init__ returns normally iff compliant(type, value) (oracle from the statement); the ranges used "
               "are tied to the real inclusive_value_range bodies by finite instantiation over every width 1..64 and to "
               "FloatType.__init__'s magnitude table (exact rationals).")


def _gen_float_init(rng, i):
    return {"n": rng.choice([16, 32, 64, 16, 32, 64, 8, 24, 1, 0, 65, 128, 33]), "cast": rng.choice(["s", "t"])}


def _build_float_init(desc):
    from pydsdl import _serializable as S

    cm = S.PrimitiveType.CastMode.SATURATED if desc["cast"] == "s" else S.PrimitiveType.CastMode.TRUNCATED
    return (lambda: S.FloatType(desc["n"], cm)), {"bit_length": desc["n"], "cast_mode": cm}


def _float_init_native_post(s):
    # the class invariant of FloatType is part of what __init__ must establish (native reading)
    return s.self._magnitude == MAG(s.self._bit_length)


_FloatInit.native_extra_post = staticmethod(_float_init_native_post)


def _gen_range(kinds):
    def gen(rng, i):
        k = rng.choice(kinds)
        if k == "int":
            return {"k": k, "n": 2 + (i % 63)}
        if k == "float":
            return {"k": k, "n": [16, 32, 64][i % 3]}
        return {"k": k, "n": 1 + (i % 64), "cast": rng.choice(["s", "t"])}

    return gen


def _build_range(desc):
    t = _mk_type(desc)
    return (lambda: t.inclusive_value_range), {"self": t}


NATIVE.add(FLOAT_T + ".__init__", _gen_float_init, _build_float_init)
NATIVE.add(SIGNED_T + ".inclusive_value_range", _gen_range(["int"]), _build_range)
NATIVE.add(UNSIGNED_T + ".inclusive_value_range", _gen_range(["uint"]), _build_range)
NATIVE.add(FLOAT_T + ".inclusive_value_range", _gen_range(["float"]), _build_range)


# effect obligations (AST, complete for what they state): no memoising decorator, no module-level state - see specs/common.py
from .common import no_hidden_state_check as _no_hidden_state_check  # noqa: E402
EXTRA_CHECKS = list(globals().get("EXTRA_CHECKS", [])) + [_no_hidden_state_check(
    ["pydsdl._serializable._attribute", "pydsdl._serializable._primitive"], "Constant and the value ranges")]
