"""
Runner module of the namespace-reader contracts (id C10R, a component check used by C10 / C13 / C17 / C19 through
specs/reader_link.py):  ./check C10R --tier quick
"""
from .c10_reader import *  # noqa: F401,F403
from .c10_reader import LEVEL, NOT_COVERED, EXPLANATION, ASSUMPTIONS  # noqa: F401
