"""Scratch property module to run the reader contracts alone (development only)."""
from .c10_reader import *  # noqa
from . import c10_reader
for c in c10_reader.REG.contracts.values():
    pass
