"""
C13 - bad input yields InvalidDefinitionError, never a crash / InternalError.
"""
from .expr import *  # noqa  (contracts of the expression layer, props C13 + C04)
from . import expr as _expr

LEVEL = "proof"
