"""
C13 - bad input yields InvalidDefinitionError, never a crash / InternalError.

Exception-class side of the expression-layer contracts (specs/expr.py, shared with C04): every function under contract
declares in `raises` the only exception classes that may leave it - all of them subclasses of InvalidDefinitionError -
and the generator emits an obligation `noraise#<Class>` for any other class that a path of the real body (or the assumed
CPython contract of a library call) can raise.
"""
from pyvc.spec import REG
from .expr import *  # noqa  (contracts of the expression layer, props C13 + C04)
from . import expr as _expr
from . import expr_native as _native
from . import c13_types as _types  # service types as type expressions (contracts registered on import)

LEVEL = "proof"
_native.install(REG)
_native.install_funnel()
_native.install_types(REG)
_native.install_chain()
_native.install_attribute()
NATIVE = _native.NATIVE
NATIVE_BUDGET = {"quick": 40, "thorough": 600}

EXPLANATION = (
    "Every function of the expression layer under contract declares the exception classes that may leave it - only "
    "subclasses of InvalidDefinitionError, mostly with an if-and-only-if condition - and the generator emits an obligation "
    "`noraise#<Class>` (goal False) for any other class raised on a feasible path of the real body, where library calls "
    "raise according to their assumed CPython contracts (Fraction.__pow__ -> OverflowError / complex, chr() -> ValueError / "
    "OverflowError, Fraction(float) -> OverflowError / ValueError, int()/Fraction(str) -> ValueError, dict lookup -> "
    "KeyError, next() -> StopIteration, failed in-code assert -> obligation).  The funnel `_parser.parse` is verified "
    "against the assumed contract of parsimonious: InternalError leaves it only under the ghost condition 'a visitor "
    "raised a non-Error exception (or InternalError itself)', every pydsdl Error leaves it with a line number.")
NOT_COVERED = [
    "arbitrary garbage text in general: that parsimonious' Grammar.parse raises only ParseError and that NodeVisitor.visit "
    "wraps/unwraps exceptions as documented is the assumed third-party contract",
    "visitors not under contract (statements, types, comments, identifiers, expression lists, expression_atom, "
    "_visit_binary_operator_chain) and the whole DataTypeBuilder / Constant / serializable-type constructors: the ghost flag "
    "visitor_crashed is excluded only for the visitors listed under functions_under_contract",
    "_namespace_reader._read_definitions / read_definitions are under contract in their own process (runner C10R, "
    "specs/c10_reader.py; result included as the extra check reader_contracts): only pydsdl Errors leave, a pydsdl Error of "
    "read() leaves unchanged with a known path, anything else is wrapped into InternalError with the target's path - relative "
    "to the assumed model of ReadableDSDLFile.read (specs/drivers/reader_model.py); those obligations are reported under "
    "extra_checks, not under coverage.obligations",
    "_operator.attribute and SerializableType._attribute (assumed exception-class contract: iteration over a BitLengthSet "
    "is not modelled); fields of a service type: ServiceType._check_aggregation is proved to report a failure, that "
    "CompositeType.__init__ turns it into AggregationError before computing the layout is C05's subject (whole_text: bounded)",
    "sets of sets and sets of types: every contract involving a Set operand assumes (precondition `domain`) that its "
    "element class is Boolean, Rational or String",
    "string literals whose body contains the delimiting quote character after a backslash (precondition "
    "`no-quote-inside` of _parse_string_literal: the in-code assertion about unescaped quotes depends on the grammar regex)",
    "text rendering of huge numbers (str(), %-formatting are assumed total): see the known finding int-str-digit-limit",
    "RecursionError, MemoryError, running time (10 ** 1e400 is an exact integer power), file names (C15), non-UTF-8 files "
    "(a definition file with invalid UTF-8 yields InternalError(UnicodeDecodeError); not a Unicode text, outside the statement)",
]
ASSUMPTIONS = [
    "exception classes of library calls are those of the assumed CPython 3.11/3.12 contracts listed under "
    "assumed_library_contracts (pyvc/ext_expr.py, pyvc/libmodel.py)",
    "operands of the expression layer range over the repository's subclasses of Any (closed world); Set element classes "
    "are Boolean, Rational or String (contract preconditions)",
    "literal visitors: the matched text is acceptable to int()/Fraction() (precondition from the grammar; checked "
    "against the real grammar by C04's bounded literal enumeration, not proved)",
]

# ------------------------------------------------------------------------------------------------ end-to-end (bounded)
TARGETED = [
    "@assert (-1) ** 0.5 == 1", "@assert 1e400 ** 0.5 == 1", "@assert 1e-400 ** -0.5 == 1", "@assert 0 ** -1 == 1",
    "@assert 0 ** -0.5 == 1", "@assert '\\UFFFFFFFF' == ''", "@assert '\\U00110000' == ''", "@assert '\\ud800' == ''",
    "uint8 X = '\\ud800'", "uint8 X = '\\U0001F600'", "@print '\\ud800'", "@assert {} == {}", "@assert {1, true} == {1}",
    "@assert 1 / 0 == 1", "@assert 1 % 0 == 1", "@assert {1, 2} / {0} == 1", "@assert 1 / {1, 0} == {1}",
    "@assert ({1, 2} & {3}) == {1}", "@assert true + 1 == 2", "@assert 'a' * 2 == 'aa'", "uint8[1.5] x", "uint8[{1}] x",
    "uint8[true] x", "uint8[<=0] x", "uint8[<1] x", "uint8[-1] x", "@assert 1", "@extent 'a'", "@extent 1.5", "@assert",
    "@assert {1}.min.max", "@assert {1, 2}.min == 1", "@assert {'a', 'b'}.max == 'b'", "@assert {1}.count == 1",
    "@assert {1}.foo == 1", "@assert uint8.foo == 1", "@assert {1, 2}.min.count == 1", "@assert {true, false}.min",
    "@assert {'a'}.min == 'a'", "@assert {true}.max", "@assert {{1}} + 1 == {{2}}",
    "@assert {uint8} == {uint8}", "@assert uint8 + 1 == 1", "@assert 1.5 | 1 == 1", "@assert 2 ** 0.5 == 1",
    "@assert (1 / 3) ** (1 / 3) == 1", "@assert -8 ** (1 / 3) == 1", "@assert (-8) ** (1 / 3) == 1",
    "@assert 0x_ == 1", "@assert 1__0 == 1", "@assert 1.e5 == 1", "@assert 'a", "@assert 'a\\'", "@assert \"\\x41\" == 'A'",
    "uint8 x\n@assert _offset_.foo == 1", "@deprecated 1", "@sealed 1", "@print", "@print 1 2", "Foo.1.0 x", "ns.A.1 x",
    "ns.A.1.0.0 x", "uint8 _x", "uint8 x\nuint8 x", "@union\nuint8 a", "void8 x", "void65", "uint0 x", "uint65 x",
    "S.1.0 f", "S.1.0[2] f", "S.1.0[<=2] f", "S.1.0[<3] f", "@assert S.1.0._extent_ > 0", "@print S.1.0._bit_length_",
    "@union\nS.1.0 a\nuint8 b", "@print S.1.0", "@assert {S.1.0} == {S.1.0}", "@assert S.1.0.foo", "ns.S.1.0 f",
    "float17 x", "saturated bool x", "truncated int8 x", "uint8[4294967296] x", "\x00", "\t\r", "#",
]
_BIG = "1" + "0" * 5000
DIGIT_LIMIT = ["@print 10**5000", "@assert 10**5000 / 0 == 1", "uint8 X = 10**5000", "uint8[10**5000 / 3] x",
               "@assert 10**5000 | 0.5 == 1",                     # text rendering of a huge rational (fix patch 4)
               "@assert %s == 1" % _BIG, "@assert %s.0 == 1" % _BIG, "uint%s x" % _BIG,  # decimal literal > 4300 digits
               "@extent 10**5000 * 8", "uint64 z\n@extent -(10**5000) * 8"]          # %d of a huge native int


# one line per operator x operand-class family, including the exotic operands (sets of sets, sets of types, singletons,
# mixed-sign / non-integer rationals, strings that need NFC normalisation); expectation as for every text: a model or an
# InvalidDefinitionError, never InternalError
_FAMILIES = ["true", "(-1/2)", "(5/2)", "0", "'\\u00e9'", "'e\\u0301'", "uint8", "{1, 2}", "{-3, 5/2, 0}", "{'a', 'b'}",
             "{'\\u00e9', 'e\\u0301'}", "{true, false}", "{-1/2}", "{'a'}", "{true}", "{{1}, {2}}", "{{1}}", "{uint8, uint16}",
             "{bool}", "{uint8}", "{_offset_}", "{{uint8}}"]
_BINARY = ["||", "&&", "==", "!=", "<=", ">=", "<", ">", "|", "^", "&", "+", "-", "*", "/", "%", "**"]
OPERATOR_TABLE = (["@print %s %s %s" % (a, op, a) for op in _BINARY for a in _FAMILIES]
                  + ["@print %s %s 2" % (a, op) for op in _BINARY for a in _FAMILIES]
                  + ["@print (-1/2) %s %s" % (op, a) for op in _BINARY for a in _FAMILIES]
                  + ["@print %s%s" % (u, a) for u in ("!", "+", "-") for a in _FAMILIES]
                  + ["@print %s.%s" % (a, n) for n in ("min", "max", "count", "foo", "_bit_length_", "_extent_") for a in _FAMILIES]
                  + ["@assert {uint8, uint16}.max == uint16", "@assert {{1}, {2}}.min == {1}", "@assert {bool}.min == bool",
                     "@assert {_offset_}.max == {0}", "@print {{1}, {2}}.min.max", "@print {uint8, uint16}.count"])


def whole_text(eng, tier, seed):
    """The statement itself, natively and bounded: targeted corner cases and seeded token-level mutations of them are read
    through pydsdl.read_namespace; anything other than success or an InvalidDefinitionError is a violation."""
    import os
    import random
    import shutil
    import signal
    import tempfile
    import pydsdl

    rng = random.Random(seed)
    texts = list(TARGETED) + list(DIGIT_LIMIT) + list(OPERATOR_TABLE)
    toks = sorted(set(t for x in TARGETED for t in x.replace("(", " ( ").replace(")", " ) ").split()))
    for _ in range(600 if tier == "quick" else 6000):
        base = rng.choice(TARGETED).split(" ")
        k = rng.choice(["del", "dup", "swap", "rep", "noise"])
        i = rng.randrange(len(base))
        if k == "del" and len(base) > 1:
            del base[i]
        elif k == "dup":
            base.insert(i, base[i])
        elif k == "swap" and len(base) > 1:
            j = rng.randrange(len(base))
            base[i], base[j] = base[j], base[i]
        elif k == "rep":
            base[i] = rng.choice(toks)
        else:
            base[i] = base[i] + rng.choice(["\\", "'", "\x7f", "\u212a", "**", "{", "]", "e400", "\\U"])
        texts.append(" ".join(base))
    root = tempfile.mkdtemp(prefix="c13-whole-")
    found = {}
    ok = invalid = 0

    def alarm(*a):
        raise TimeoutError()

    old = signal.signal(signal.SIGALRM, alarm)
    try:
        os.mkdir(os.path.join(root, "ns"))
        path = os.path.join(root, "ns", "A.1.0.dsdl")
        with open(os.path.join(root, "ns", "S.1.0.dsdl"), "w") as f:  # a service type that the texts may refer to
            f.write("uint8 a\n@sealed\n---\nuint8 b\n@sealed\n")
        for text in texts:
            if any(0xD800 <= ord(ch) <= 0xDFFF for ch in text):
                continue  # not encodable as UTF-8: cannot be the text of a definition file
            with open(path, "w", encoding="utf8") as f:
                f.write(text + "\n@sealed\n")
            signal.alarm(10)
            try:
                pydsdl.read_namespace(os.path.join(root, "ns"), print_output_handler=lambda *a: None)
                ok += 1
            except pydsdl.InvalidDefinitionError as ex:
                invalid += 1
                if ex.path is None:
                    found.setdefault("no-path", {"text": text, "exception": type(ex).__name__})
            except TimeoutError:
                pass
            except BaseException as ex:  # noqa
                msg = str(ex)
                if "TimeoutError" in msg:
                    continue  # the harness' own alarm (huge exact powers take minutes: time, not exceptions)
                import re

                m_ = re.search(r": (\w+(?:Error|Exception)):", msg)
                cat = "int-str-digit-limit" if "Exceeds the limit" in msg else "crash-%s%s" % (
                    type(ex).__name__, "-" + m_.group(1) if m_ else "")
                found.setdefault(cat, {"text": text, "exception": type(ex).__name__, "message": msg[:160]})
            finally:
                signal.alarm(0)
    finally:
        signal.signal(signal.SIGALRM, old)
        shutil.rmtree(root, ignore_errors=True)
    return {"name": "whole_text", "level": "bounded", "bound": "%d definition texts (targeted corner cases + seeded token "
            "mutations)" % len(texts), "accepted": ok, "rejected_with_InvalidDefinitionError": invalid,
            "ok": not found,
            "violations": [{"name": "C13/extra#whole-text:%s" % cat, "detail": str(c), "concrete": c}
                           for cat, c in sorted(found.items())]}


from .reader_link import reader_contracts  # noqa: E402  contracts of the namespace reader, proved in their own process (C10R)

EXTRA_CHECKS = [whole_text]
EXTRA_CHECKS = EXTRA_CHECKS + [reader_contracts]


# effect obligations (AST, complete for what they state): no argument-keyed cache decorator, no module-level state - see
# specs/common.py (the outcome of reading a text depends on the text and its dependencies, not on earlier reads)
from .common import no_hidden_state_check as _no_hidden_state_check  # noqa: E402
EXTRA_CHECKS = list(globals().get("EXTRA_CHECKS", [])) + [_no_hidden_state_check(
    ["pydsdl._expression._any", "pydsdl._expression._primitive", "pydsdl._expression._container", "pydsdl._expression._operator", "pydsdl._parser", "pydsdl._error"], "the expression layer and the parser")]
