import Mathlib.Data.Finset.Card
import Mathlib.Data.Finset.Prod
import Mathlib.Data.Finset.Image
import Mathlib.Tactic.Ring
import Mathlib.Tactic.Linarith

/-!
Structure layout fold (C02/C08): SFold [] = {0}; SFold (fs ++ [f]) = sumset (padset (SFold fs) (A f)) (L f).
`F i` is the bit length set of the i-th field type, `M i` its alignment.
-/

open Finset

namespace Pydsdl

def pad (r x : ℕ) : ℕ := (x + r - 1) / r * r
def sumset (A B : Finset ℕ) : Finset ℕ := (A ×ˢ B).image (fun p => p.1 + p.2)
def padset (A : Finset ℕ) (r : ℕ) : Finset ℕ := A.image (pad r)

def sfold (F : ℕ → Finset ℕ) (M : ℕ → ℕ) : ℕ → Finset ℕ
  | 0 => {0}
  | n + 1 => sumset (padset (sfold F M n) (M n)) (F n)

theorem sfold_zero (F : ℕ → Finset ℕ) (M : ℕ → ℕ) : sfold F M 0 = {0} := rfl

theorem sfold_succ (F : ℕ → Finset ℕ) (M : ℕ → ℕ) (n : ℕ) :
    sfold F M (n + 1) = sumset (padset (sfold F M n) (M n)) (F n) := rfl

theorem pad_zero (r : ℕ) (hr : 0 < r) : pad r 0 = 0 := by
  unfold pad
  have : (0 + r - 1) / r = 0 := by
    apply Nat.div_eq_of_lt
    omega
  rw [this]; simp

theorem sumset_zero_left (A : Finset ℕ) : sumset {0} A = A := by
  ext y
  simp only [sumset, mem_image, mem_product, mem_singleton, Prod.exists]
  constructor
  · rintro ⟨a, b, ⟨ha, hb⟩, rfl⟩
    subst ha
    simpa using hb
  · intro hy
    exact ⟨0, y, ⟨rfl, hy⟩, by simp⟩

/-- the first field of a structure is never padded: SFold [f] = L f -/
theorem sfold_one (F : ℕ → Finset ℕ) (M : ℕ → ℕ) (hM : 0 < M 0) : sfold F M 1 = F 0 := by
  rw [sfold_succ, sfold_zero]
  have : padset {0} (M 0) = {0} := by
    simp [padset, pad_zero _ hM]
  rw [this, sumset_zero_left]

theorem sumset_nonempty {A B : Finset ℕ} (hA : A.Nonempty) (hB : B.Nonempty) : (sumset A B).Nonempty := by
  obtain ⟨a, ha⟩ := hA
  obtain ⟨b, hb⟩ := hB
  exact ⟨a + b, by simp only [sumset, mem_image, mem_product, Prod.exists]; exact ⟨a, b, ⟨ha, hb⟩, rfl⟩⟩

theorem sfold_nonempty (F : ℕ → Finset ℕ) (M : ℕ → ℕ) :
    ∀ n, (∀ i, i < n → (F i).Nonempty) → (sfold F M n).Nonempty := by
  intro n
  induction n with
  | zero => intro _; simp [sfold]
  | succ n ih =>
    intro h
    rw [sfold_succ]
    apply sumset_nonempty
    · exact (ih (fun i hi => h i (by omega))).image _
    · exact h n (by omega)

/-- the structure layout depends only on the bit length sets and alignments of the first n fields -/
theorem sfold_congr (F G : ℕ → Finset ℕ) (M N : ℕ → ℕ) :
    ∀ n, (∀ i, i < n → F i = G i ∧ M i = N i) → sfold F M n = sfold G N n := by
  intro n
  induction n with
  | zero => intro _; rfl
  | succ n ih =>
    intro h
    rw [sfold_succ, sfold_succ, ih (fun i hi => h i (by omega)), (h n (by omega)).1, (h n (by omega)).2]

end Pydsdl
