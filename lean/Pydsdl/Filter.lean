/-
  Facts about order-preserving filters of finite lists that the SMT prelude states about the canonical filtered
  sequence `flt!h(S, n)` (pyvc/loops.py canonical_filter):  the filter is never longer than its source, and it is
  strictly shorter as soon as one element of the source is rejected (used by the termination measure of C09).
-/
import Mathlib.Data.List.Basic

namespace Pydsdl

theorem filter_length_le {α : Type} (p : α → Bool) (l : List α) : (l.filter p).length ≤ l.length :=
  List.length_filter_le p l

theorem filter_length_lt {α : Type} (p : α → Bool) (l : List α) (x : α) (hx : x ∈ l) (hp : p x = false) :
    (l.filter p).length < l.length := by
  apply List.length_filter_lt_length_iff_exists.mpr
  exact ⟨x, hx, by simp [hp]⟩

end Pydsdl
