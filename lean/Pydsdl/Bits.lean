import Mathlib.Data.Nat.Bitwise
import Mathlib.Tactic.Ring
import Mathlib.Tactic.Linarith

namespace Pydsdl

/-- byte `i` of the zero-extended buffer -/
def byteAt (data : List ℕ) (i : ℕ) : ℕ := data.getD i 0

/-- bit `p` (LSB-first within each byte) of the zero-extended buffer -/
def Bit (data : List ℕ) (p : ℕ) : ℕ := (byteAt data (p / 8) / 2 ^ (p % 8)) % 2

/-- value of the `n` bits starting at bit offset `off`, least significant first -/
def bitsval (data : List ℕ) (off : ℕ) : ℕ → ℕ
  | 0 => 0
  | (n + 1) => bitsval data off n + Bit data (off + n) * 2 ^ n

theorem Bit_le_one (data : List ℕ) (p : ℕ) : Bit data p ≤ 1 := by
  unfold Bit; omega

theorem bitsval_lt (data : List ℕ) (off n : ℕ) : bitsval data off n < 2 ^ n := by
  induction n with
  | zero => simp [bitsval]
  | succ n ih =>
    have hb := Bit_le_one data (off + n)
    have : Bit data (off + n) * 2 ^ n ≤ 2 ^ n := by
      calc Bit data (off + n) * 2 ^ n ≤ 1 * 2 ^ n := Nat.mul_le_mul_right _ hb
        _ = 2 ^ n := Nat.one_mul _
    simp only [bitsval]
    rw [Nat.pow_succ]
    omega

/-- `result |= bit << i` adds `bit * 2^i` when `result < 2^i` (used by both slow paths). -/
theorem or_disjoint (x b i : ℕ) (hx : x < 2 ^ i) : x ||| (b <<< i) = x + b * 2 ^ i := by
  rw [Nat.shiftLeft_eq, Nat.lor_comm]
  have := Nat.shiftLeft_add_eq_or_of_lt hx b
  rw [Nat.shiftLeft_eq] at this
  omega

/-- splitting a read: first `a` bits, then `b` more (used by the fast path / recursion of read_bits). -/
theorem bitsval_split (data : List ℕ) (off a : ℕ) : ∀ b,
    bitsval data off (a + b) = bitsval data off a + 2 ^ a * bitsval data (off + a) b := by
  intro b
  induction b with
  | zero => simp [bitsval]
  | succ b ih =>
    have e : a + (b + 1) = (a + b) + 1 := by omega
    rw [e]
    simp only [bitsval]
    rw [ih, Nat.pow_add, Nat.add_assoc off a b]
    ring

/-- zero extension: appending zero bytes does not change any read. -/
theorem byteAt_append_zeros (data : List ℕ) (m i : ℕ) : byteAt (data ++ List.replicate m 0) i = byteAt data i := by
  unfold byteAt
  by_cases h : i < data.length
  · simp [List.getD_eq_getElem?_getD, List.getElem?_append_left h]
  · have h' : data.length ≤ i := Nat.le_of_not_lt h
    simp [List.getD_eq_getElem?_getD, List.getElem?_append_right h', List.getElem?_eq_none h', List.getElem?_replicate]
    split <;> rfl

theorem bitsval_zero_ext (data : List ℕ) (m off n : ℕ) :
    bitsval (data ++ List.replicate m 0) off n = bitsval data off n := by
  induction n with
  | zero => rfl
  | succ n ih =>
    simp only [bitsval, ih, Bit, byteAt_append_zeros]

/-- a byte is the sum of its eight bits -/
theorem byte_bits (b : ℕ) (hb : b < 256) :
    b % 2 + b / 2 % 2 * 2 + b / 4 % 2 * 4 + b / 8 % 2 * 8 + b / 16 % 2 * 16 + b / 32 % 2 * 32 + b / 64 % 2 * 64 + b / 128 % 2 * 128 = b := by
  omega

end Pydsdl
