import Mathlib.Data.Nat.Bitwise
import Mathlib.Tactic.Ring
import Mathlib.Tactic.Linarith
import Mathlib.Tactic.IntervalCases
import Mathlib.Tactic.NormNum

namespace Pydsdl

/-- byte `i` of the zero-extended buffer -/
def byteAt (data : List ℕ) (i : ℕ) : ℕ := data.getD i 0

/-- bit `p` (LSB-first within each byte) of the zero-extended buffer -/
def Bit (data : List ℕ) (p : ℕ) : ℕ := (byteAt data (p / 8) / 2 ^ (p % 8)) % 2

/-- value of the `n` bits starting at bit offset `off`, least significant first -/
def bitsval (data : List ℕ) (off : ℕ) : ℕ → ℕ
  | 0 => 0
  | (n + 1) => bitsval data off n + Bit data (off + n) * 2 ^ n

theorem Bit_le_one (data : List ℕ) (p : ℕ) : Bit data p ≤ 1 := by
  unfold Bit; omega

theorem bitsval_lt (data : List ℕ) (off n : ℕ) : bitsval data off n < 2 ^ n := by
  induction n with
  | zero => simp [bitsval]
  | succ n ih =>
    have hb := Bit_le_one data (off + n)
    have : Bit data (off + n) * 2 ^ n ≤ 2 ^ n := by
      calc Bit data (off + n) * 2 ^ n ≤ 1 * 2 ^ n := Nat.mul_le_mul_right _ hb
        _ = 2 ^ n := Nat.one_mul _
    simp only [bitsval]
    rw [Nat.pow_succ]
    omega

/-- `result |= bit << i` adds `bit * 2^i` when `result < 2^i` (used by both slow paths). -/
theorem or_disjoint (x b i : ℕ) (hx : x < 2 ^ i) : x ||| (b <<< i) = x + b * 2 ^ i := by
  rw [Nat.shiftLeft_eq, Nat.lor_comm]
  have := Nat.shiftLeft_add_eq_or_of_lt hx b
  rw [Nat.shiftLeft_eq] at this
  omega

/-- splitting a read: first `a` bits, then `b` more (used by the fast path / recursion of read_bits). -/
theorem bitsval_split (data : List ℕ) (off a : ℕ) : ∀ b,
    bitsval data off (a + b) = bitsval data off a + 2 ^ a * bitsval data (off + a) b := by
  intro b
  induction b with
  | zero => simp [bitsval]
  | succ b ih =>
    have e : a + (b + 1) = (a + b) + 1 := by omega
    rw [e]
    simp only [bitsval]
    rw [ih, Nat.pow_add, Nat.add_assoc off a b]
    ring

/-- zero extension: appending zero bytes does not change any read. -/
theorem byteAt_append_zeros (data : List ℕ) (m i : ℕ) : byteAt (data ++ List.replicate m 0) i = byteAt data i := by
  unfold byteAt
  by_cases h : i < data.length
  · simp [List.getD_eq_getElem?_getD, List.getElem?_append_left h]
  · have h' : data.length ≤ i := Nat.le_of_not_lt h
    simp [List.getD_eq_getElem?_getD, List.getElem?_append_right h', List.getElem?_eq_none h', List.getElem?_replicate]
    split <;> rfl

theorem bitsval_zero_ext (data : List ℕ) (m off n : ℕ) :
    bitsval (data ++ List.replicate m 0) off n = bitsval data off n := by
  induction n with
  | zero => rfl
  | succ n ih =>
    simp only [bitsval, ih, Bit, byteAt_append_zeros]

/-- a byte is the sum of its eight bits -/
theorem byte_bits (b : ℕ) (hb : b < 256) :
    b % 2 + b / 2 % 2 * 2 + b / 4 % 2 * 4 + b / 8 % 2 * 8 + b / 16 % 2 * 16 + b / 32 % 2 * 32 + b / 64 % 2 * 64 + b / 128 % 2 * 128 = b := by
  omega

end Pydsdl

/-! ## Extensions for the serdes bit layer (C06/C07): statements used as ground-instance schemas by pyvc/bittheory.py -/
namespace Pydsdl

/-- extensionality of `bitsval` in the bits it reads -/
theorem bitsval_congr (d1 d2 : List ℕ) (o1 o2 k : ℕ)
    (h : ∀ i, i < k → Bit d1 (o1 + i) = Bit d2 (o2 + i)) : bitsval d1 o1 k = bitsval d2 o2 k := by
  induction k with
  | zero => rfl
  | succ k ih =>
    simp only [bitsval]
    rw [ih (fun i hi => h i (by omega)), h k (by omega)]

/-- a byte string whose zero-extended bytes agree with those of `d` from byte `s` on (slice + zero padding) -/
theorem bitsval_view (c d : List ℕ) (s m n : ℕ) (hn : n ≤ m)
    (h : ∀ i, i < m → byteAt c i = byteAt d (s + i)) : bitsval c 0 (8 * n) = bitsval d (8 * s) (8 * n) := by
  apply bitsval_congr
  intro i hi
  unfold Bit
  have h1 : (8 * s + i) / 8 = s + i / 8 := by omega
  have h2 : (8 * s + i) % 8 = i % 8 := by omega
  rw [h1, h2, Nat.zero_add, h (i / 8) (by omega)]

/-- `int.from_bytes(b, 'little')` -/
def fromBytesLE : List ℕ → ℕ
  | [] => 0
  | b :: bs => b + 256 * fromBytesLE bs

theorem Bit_byte (d : List ℕ) (q j : ℕ) (hj : j < 8) : Bit d (8 * q + j) = (byteAt d q / 2 ^ j) % 2 := by
  unfold Bit
  have h1 : (8 * q + j) / 8 = q := by omega
  have h2 : (8 * q + j) % 8 = j := by omega
  rw [h1, h2]

theorem bitsval_byte (d : List ℕ) (q : ℕ) (h : byteAt d q < 256) : bitsval d (8 * q) 8 = byteAt d q := by
  have e : bitsval d (8 * q) 8 = Bit d (8 * q + 0) * 2 ^ 0 + Bit d (8 * q + 1) * 2 ^ 1 + Bit d (8 * q + 2) * 2 ^ 2
      + Bit d (8 * q + 3) * 2 ^ 3 + Bit d (8 * q + 4) * 2 ^ 4 + Bit d (8 * q + 5) * 2 ^ 5
      + Bit d (8 * q + 6) * 2 ^ 6 + Bit d (8 * q + 7) * 2 ^ 7 := by
    simp [bitsval]
  rw [e, Bit_byte d q 0 (by omega), Bit_byte d q 1 (by omega), Bit_byte d q 2 (by omega), Bit_byte d q 3 (by omega),
    Bit_byte d q 4 (by omega), Bit_byte d q 5 (by omega), Bit_byte d q 6 (by omega), Bit_byte d q 7 (by omega)]
  have := byte_bits _ h
  norm_num
  omega

theorem byteAt_cons_succ (b : ℕ) (bs : List ℕ) (n : ℕ) : byteAt (b :: bs) (n + 1) = byteAt bs n := by
  simp [byteAt]

theorem bitsval_cons_shift (b : ℕ) (bs : List ℕ) (o k : ℕ) : bitsval (b :: bs) (8 + o) k = bitsval bs o k := by
  apply bitsval_congr
  intro i hi
  unfold Bit
  have h1 : (8 + o + i) / 8 = (o + i) / 8 + 1 := by omega
  have h2 : (8 + o + i) % 8 = (o + i) % 8 := by omega
  rw [h1, h2, byteAt_cons_succ]

theorem fromBytesLE_eq_bitsval (d : List ℕ) (h : ∀ b ∈ d, b < 256) :
    bitsval d 0 (8 * d.length) = fromBytesLE d := by
  induction d with
  | nil => simp [bitsval, fromBytesLE]
  | cons b bs ih =>
    have hl : 8 * (b :: bs).length = 8 + 8 * bs.length := by simp; ring
    rw [hl, bitsval_split]
    have hb : byteAt (b :: bs) 0 < 256 := by
      simp [byteAt]; exact h b (by simp)
    have h8 := bitsval_byte (b :: bs) 0 hb
    simp only [Nat.mul_zero] at h8
    rw [h8, Nat.zero_add]
    have := bitsval_cons_shift b bs 0 (8 * bs.length)
    simp only [Nat.add_zero] at this
    rw [this, ih (fun x hx => h x (by simp [hx]))]
    simp [byteAt, fromBytesLE]

theorem byteAt_beyond (d : List ℕ) (i : ℕ) (h : d.length ≤ i) : byteAt d i = 0 := by
  simp [byteAt, List.getD_eq_getElem?_getD, List.getElem?_eq_none h]

/-- a read that starts at or beyond the end of the data yields zero -/
theorem bitsval_beyond (d : List ℕ) (off k : ℕ) (h : 8 * d.length ≤ off) : bitsval d off k = 0 := by
  induction k with
  | zero => rfl
  | succ k ih =>
    simp only [bitsval, ih, Bit]
    rw [byteAt_beyond d _ (by omega)]
    simp

theorem bitsval_append_left (d t : List ℕ) (p k : ℕ) (h : p + k ≤ 8 * d.length) :
    bitsval (d ++ t) p k = bitsval d p k := by
  apply bitsval_congr
  intro i hi
  unfold Bit
  have hlt : (p + i) / 8 < d.length := by omega
  have : byteAt (d ++ t) ((p + i) / 8) = byteAt d ((p + i) / 8) := by
    simp [byteAt, List.getD_eq_getElem?_getD, List.getElem?_append_left hlt]
  rw [this]

theorem bitsval_append_right (d t : List ℕ) (k : ℕ) : bitsval (d ++ t) (8 * d.length) k = bitsval t 0 k := by
  apply bitsval_congr
  intro i hi
  unfold Bit
  have h1 : (8 * d.length + i) / 8 = d.length + i / 8 := by omega
  have h2 : (8 * d.length + i) % 8 = i % 8 := by omega
  have : byteAt (d ++ t) (d.length + i / 8) = byteAt t (i / 8) := by
    simp [byteAt, List.getD_eq_getElem?_getD, List.getElem?_append_right]
  rw [h1, h2, this, Nat.zero_add]

/-- the `n` low bits of a (two's complement) integer; `/` and `%` on `ℤ` are floor division / modulo for positive divisors -/
def lsb (v : ℤ) (n : ℕ) : ℤ := v % 2 ^ n

theorem lsb_nonneg_lt (v : ℤ) (n : ℕ) : 0 ≤ lsb v n ∧ lsb v n < 2 ^ n := by
  have hp : (0 : ℤ) < 2 ^ n := by positivity
  exact ⟨Int.emod_nonneg _ (ne_of_gt hp), Int.emod_lt_of_pos _ hp⟩

theorem lsb_of_lt (v : ℤ) (n : ℕ) (h0 : 0 ≤ v) (h : v < 2 ^ n) : lsb v n = v := by
  exact Int.emod_eq_of_lt h0 h

theorem emod_mul_split (v p q : ℤ) (hp : 0 < p) (hq : 0 < q) : v % (p * q) = v % p + p * ((v / p) % q) := by
  have hpq : 0 < p * q := Int.mul_pos hp hq
  have h1 : p * (v / p) + v % p = v := by have := Int.emod_add_mul_ediv v p; linarith
  have h2 : q * (v / p / q) + v / p % q = v / p := by have := Int.emod_add_mul_ediv (v / p) q; linarith
  have r0 := Int.emod_nonneg v (ne_of_gt hp)
  have r1 := Int.emod_lt_of_pos v hp
  have s0 := Int.emod_nonneg (v / p) (ne_of_gt hq)
  have s1 := Int.emod_lt_of_pos (v / p) hq
  have key : v / (p * q) = (v / p) / q ∧ v % (p * q) = v % p + p * ((v / p) % q) := by
    rw [Int.ediv_emod_unique hpq]
    refine ⟨?_, ?_, ?_⟩
    · calc v % p + p * (v / p % q) + p * q * (v / p / q)
          = p * (q * (v / p / q) + v / p % q) + v % p := by ring
        _ = v := by rw [h2, h1]
    · have : 0 ≤ p * (v / p % q) := Int.mul_nonneg (le_of_lt hp) s0
      linarith
    · have : p * (v / p % q) ≤ p * (q - 1) := Int.mul_le_mul_of_nonneg_left (by linarith) (le_of_lt hp)
      nlinarith
  exact key.2

theorem lsb_split (v : ℤ) (a b : ℕ) : lsb v (a + b) = lsb v a + 2 ^ a * lsb (v / 2 ^ a) b := by
  unfold lsb
  rw [pow_add]
  exact emod_mul_split v (2 ^ a) (2 ^ b) (by positivity) (by positivity)

theorem lsb_succ (v : ℤ) (i : ℕ) : lsb v (i + 1) = lsb v i + (v / 2 ^ i % 2) * 2 ^ i := by
  rw [lsb_split]
  unfold lsb
  rw [pow_one]
  ring

theorem pow2_mono (a b : ℕ) (h : a ≤ b) : (2 : ℕ) ^ a ≤ 2 ^ b := by
  exact Nat.pow_le_pow_right (by norm_num) h

/-! ### in-place update of one bit of a byte (`buf[q] |= 1 << r` / `buf[q] &= ~(1 << r)`) in a buffer whose bits from
    position `p = 8q + r` upwards are all zero.  `b = 1`: the new byte is `d[q] ||| (1 <<< r)`; `b = 0`: the new byte is
    `d[q] - (d[q] / 2^r % 2) * 2^r`. -/
def newByte (x r b : ℕ) : ℕ := if b = 1 then x ||| (1 <<< r) else x - (x / 2 ^ r % 2) * 2 ^ r

theorem bits_zero_of_bitsval_zero (d : List ℕ) (off k : ℕ) (h : bitsval d off k = 0) :
    ∀ i, i < k → Bit d (off + i) = 0 := by
  induction k with
  | zero => intro i hi; omega
  | succ k ih =>
    simp only [bitsval] at h
    have h1 : bitsval d off k = 0 := by omega
    have h2 : Bit d (off + k) * 2 ^ k = 0 := by omega
    have hp : 0 < 2 ^ k := Nat.two_pow_pos k
    have h3 : Bit d (off + k) = 0 := by
      rcases Nat.mul_eq_zero.mp h2 with h | h
      · exact h
      · omega
    intro i hi
    by_cases hik : i = k
    · rw [hik]; exact h3
    · exact ih h1 i (by omega)

theorem bitsval_zero_of_bits_zero (d : List ℕ) (off k : ℕ) (h : ∀ i, i < k → Bit d (off + i) = 0) :
    bitsval d off k = 0 := by
  induction k with
  | zero => rfl
  | succ k ih =>
    simp only [bitsval]
    rw [ih (fun i hi => h i (by omega)), h k (by omega)]
    simp

theorem byte_lt_of_high_zero (x r : ℕ) (hx : x < 256) (hr : r ≤ 7)
    (h : ∀ j, r ≤ j → j ≤ 7 → (x / 2 ^ j) % 2 = 0) : x < 2 ^ r := by
  have h0 := h 0
  have h1 := h 1
  have h2 := h 2
  have h3 := h 3
  have h4 := h 4
  have h5 := h 5
  have h6 := h 6
  have h7 := h 7
  interval_cases r <;> norm_num at h0 h1 h2 h3 h4 h5 h6 h7 ⊢ <;> omega

theorem bit_of_sum (x r b s : ℕ) (hx : x < 2 ^ r) (hr : r ≤ 7) (hb : b ≤ 1) (hs : s ≤ 7) :
    ((x + b * 2 ^ r) / 2 ^ s) % 2 = if s < r then (x / 2 ^ s) % 2 else if s = r then b else 0 := by
  interval_cases r <;> interval_cases s <;> norm_num at hx ⊢ <;> omega

theorem byteAt_set (d : List ℕ) (q v j : ℕ) (hq : q < d.length) :
    byteAt (d.set q v) j = if j = q then v else byteAt d j := by
  unfold byteAt
  simp only [List.getD_eq_getElem?_getD, List.getElem?_set]
  by_cases h : j = q
  · subst h; simp [hq]
  · have h' : ¬ q = j := fun e => h e.symm
    simp [h, h']

/-- all the bit-level facts about the in-place update, bundled -/
theorem set_bit_bits (d : List ℕ) (q r b : ℕ) (hq : q < d.length) (hr : r ≤ 7) (hb : b ≤ 1)
    (hbyte : byteAt d q < 256) (tail : bitsval d (8 * q + r) (8 * d.length - (8 * q + r)) = 0) :
    byteAt d q < 2 ^ r ∧ newByte (byteAt d q) r b = byteAt d q + b * 2 ^ r ∧
    (∀ j, j < 8 * q + r → Bit (d.set q (newByte (byteAt d q) r b)) j = Bit d j) ∧
    Bit (d.set q (newByte (byteAt d q) r b)) (8 * q + r) = b ∧
    (∀ j, 8 * q + r < j → j < 8 * d.length → Bit (d.set q (newByte (byteAt d q) r b)) j = 0) := by
  have hz := bits_zero_of_bitsval_zero d _ _ tail
  have hz' : ∀ j, 8 * q + r ≤ j → j < 8 * d.length → Bit d j = 0 := by
    intro j h1 h2
    have := hz (j - (8 * q + r)) (by omega)
    rwa [show 8 * q + r + (j - (8 * q + r)) = j by omega] at this
  have hx : byteAt d q < 2 ^ r := by
    apply byte_lt_of_high_zero _ _ hbyte hr
    intro j h1 h2
    rw [← Bit_byte d q j (by omega)]
    exact hz' _ (by omega) (by omega)
  have hv : newByte (byteAt d q) r b = byteAt d q + b * 2 ^ r := by
    unfold newByte
    by_cases hb1 : b = 1
    · rw [if_pos hb1, or_disjoint _ _ _ hx, hb1]
    · have hb0 : b = 0 := by omega
      rw [if_neg hb1, hb0, Nat.div_eq_of_lt hx]
      simp
  refine ⟨hx, hv, ?_, ?_, ?_⟩
  · intro j hj
    unfold Bit
    rw [byteAt_set _ _ _ _ hq]
    by_cases hjq : j / 8 = q
    · rw [if_pos hjq, hv, hjq, bit_of_sum _ _ _ _ hx hr hb (by omega), if_pos (by omega)]
    · rw [if_neg hjq]
  · rw [Bit_byte _ _ _ (by omega), byteAt_set _ _ _ _ hq, if_pos rfl, hv, bit_of_sum _ _ _ _ hx hr hb hr]
    simp
  · intro j h1 h2
    unfold Bit
    rw [byteAt_set _ _ _ _ hq]
    by_cases hjq : j / 8 = q
    · rw [if_pos hjq, hv, bit_of_sum _ _ _ _ hx hr hb (by omega), if_neg (by omega), if_neg (by omega)]
    · rw [if_neg hjq]
      exact hz' j (by omega) h2

theorem set_bit_byte_range (d : List ℕ) (q r b : ℕ) (hq : q < d.length) (hr : r ≤ 7) (hb : b ≤ 1)
    (hbyte : byteAt d q < 256) (tail : bitsval d (8 * q + r) (8 * d.length - (8 * q + r)) = 0) :
    newByte (byteAt d q) r b ≤ 255 := by
  obtain ⟨hx, hv, -, -, -⟩ := set_bit_bits d q r b hq hr hb hbyte tail
  rw [hv]
  have h2 : 2 ^ r * 2 ≤ 256 := by
    have := pow2_mono (r + 1) 8 (by omega)
    rw [Nat.pow_succ] at this
    norm_num at this ⊢
    exact this
  have h3 : b * 2 ^ r ≤ 2 ^ r := by
    calc b * 2 ^ r ≤ 1 * 2 ^ r := Nat.mul_le_mul_right _ hb
      _ = 2 ^ r := Nat.one_mul _
  omega

/-- reads that end at or before the updated bit are unchanged -/
theorem set_bit_below (d : List ℕ) (q r b off k : ℕ) (hq : q < d.length) (hr : r ≤ 7) (hb : b ≤ 1)
    (hbyte : byteAt d q < 256) (tail : bitsval d (8 * q + r) (8 * d.length - (8 * q + r)) = 0)
    (hok : off + k ≤ 8 * q + r) :
    bitsval (d.set q (newByte (byteAt d q) r b)) off k = bitsval d off k := by
  obtain ⟨-, -, hlow, -, -⟩ := set_bit_bits d q r b hq hr hb hbyte tail
  apply bitsval_congr
  intro i hi
  exact hlow _ (by omega)

/-- a read that ends with the updated bit gains `b * 2^(k-1)` -/
theorem set_bit_read (d : List ℕ) (q r b off k : ℕ) (hq : q < d.length) (hr : r ≤ 7) (hb : b ≤ 1)
    (hbyte : byteAt d q < 256) (tail : bitsval d (8 * q + r) (8 * d.length - (8 * q + r)) = 0)
    (hk : 1 ≤ k) (hok : off + k = 8 * q + r + 1) :
    bitsval (d.set q (newByte (byteAt d q) r b)) off k = bitsval d off (k - 1) + b * 2 ^ (k - 1) := by
  obtain ⟨-, -, -, hmid, -⟩ := set_bit_bits d q r b hq hr hb hbyte tail
  obtain ⟨k', rfl⟩ : ∃ k', k = k' + 1 := ⟨k - 1, by omega⟩
  simp only [bitsval, Nat.add_sub_cancel]
  rw [set_bit_below d q r b off k' hq hr hb hbyte tail (by omega),
    show off + k' = 8 * q + r by omega, hmid]

/-- every bit above the updated one is still zero -/
theorem set_bit_tail (d : List ℕ) (q r b : ℕ) (hq : q < d.length) (hr : r ≤ 7) (hb : b ≤ 1)
    (hbyte : byteAt d q < 256) (tail : bitsval d (8 * q + r) (8 * d.length - (8 * q + r)) = 0) :
    bitsval (d.set q (newByte (byteAt d q) r b)) (8 * q + r + 1) (8 * d.length - (8 * q + r) - 1) = 0 := by
  obtain ⟨-, -, -, -, hhigh⟩ := set_bit_bits d q r b hq hr hb hbyte tail
  apply bitsval_zero_of_bits_zero
  intro i hi
  exact hhigh _ (by omega) (by omega)

end Pydsdl
