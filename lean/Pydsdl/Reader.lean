/-
Termination measure of pydsdl._namespace_reader._read_definitions (specs/c10_reader.py, `_missing_lemma`):
`missing L A` = number of lookup paths (finite set `L`) that are not yet keys of the file pool (`A p` = "p is pooled").
If the pool only grew the count does not grow; if moreover some lookup path was pooled in between it strictly decreases.
-/
import Mathlib.Data.Finset.Card

namespace Pydsdl

open Finset

variable {α : Type*}

def missing (L : Finset α) (A : α → Prop) [DecidablePred A] : ℕ :=
  (L.filter (fun p => ¬ A p)).card

theorem missing_le (L : Finset α) (A B : α → Prop) [DecidablePred A] [DecidablePred B]
    (grew : ∀ p, A p → B p) : missing L B ≤ missing L A := by
  unfold missing
  apply card_le_card
  intro p hp
  rw [mem_filter] at hp ⊢
  exact ⟨hp.1, fun ha => hp.2 (grew p ha)⟩

theorem missing_lt (L : Finset α) (A B : α → Prop) [DecidablePred A] [DecidablePred B]
    (grew : ∀ p, A p → B p) (w : α) (hw : w ∈ L) (hA : ¬ A w) (hB : B w) :
    missing L B < missing L A := by
  unfold missing
  apply card_lt_card
  rw [ssubset_iff_of_subset]
  · exact ⟨w, by rw [mem_filter]; exact ⟨hw, hA⟩, by rw [mem_filter]; exact fun h => h.2 hB⟩
  · intro p hp
    rw [mem_filter] at hp ⊢
    exact ⟨hp.1, fun ha => hp.2 (grew p ha)⟩

end Pydsdl
