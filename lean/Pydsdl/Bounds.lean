import Mathlib.Data.Finset.Card
import Mathlib.Data.Finset.Prod
import Mathlib.Data.Finset.Image
import Mathlib.Tactic.Ring
import Mathlib.Tactic.Linarith

/-!
Bounds and non-emptiness of n-ary sums (used by ConcatenationOperator.min/max and by the well-formedness
closure axioms of the SMT prelude).  Same definitions as Basic.lean.
-/
open Finset

namespace Pydsdl

def sumset (A B : Finset ℕ) : Finset ℕ := (A ×ˢ B).image (fun p => p.1 + p.2)
def nsum : List (Finset ℕ) → Finset ℕ
  | [] => {0}
  | (A :: As) => sumset A (nsum As)
def kfold (A : Finset ℕ) : ℕ → Finset ℕ
  | 0 => {0}
  | (k + 1) => sumset (kfold A k) A
def rangefold (A : Finset ℕ) (K : ℕ) : Finset ℕ := (range (K + 1)).biUnion (kfold A)

theorem mem_sumset {A B : Finset ℕ} {y : ℕ} : y ∈ sumset A B ↔ ∃ a ∈ A, ∃ b ∈ B, y = a + b := by
  simp only [sumset, mem_image, mem_product, Prod.exists]
  constructor
  · rintro ⟨a, b, ⟨ha, hb⟩, rfl⟩; exact ⟨a, ha, b, hb, rfl⟩
  · rintro ⟨a, ha, b, hb, rfl⟩; exact ⟨a, b, ⟨ha, hb⟩, rfl⟩

/-- every element of an n-ary sum lies between the sums of the per-operand lower and upper bounds -/
theorem nsum_bounds (f g : Finset ℕ → ℕ) :
    ∀ As : List (Finset ℕ), (∀ A ∈ As, ∀ x ∈ A, f A ≤ x ∧ x ≤ g A) →
      ∀ y ∈ nsum As, (As.map f).sum ≤ y ∧ y ≤ (As.map g).sum := by
  intro As
  induction As with
  | nil => intro _ y hy; simp [nsum] at hy; subst hy; simp
  | cons A As ih =>
    intro h y hy
    obtain ⟨a, ha, b, hb, rfl⟩ := mem_sumset.mp hy
    have hA := h A (List.mem_cons_self) a ha
    have hrest := ih (fun B hB x hx => h B (List.mem_cons_of_mem _ hB) x hx) b hb
    simp only [List.map, List.sum_cons]
    omega

/-- choosing one element per operand yields an element of the n-ary sum -/
theorem nsum_mem_sum (c : Finset ℕ → ℕ) :
    ∀ As : List (Finset ℕ), (∀ A ∈ As, c A ∈ A) → (As.map c).sum ∈ nsum As := by
  intro As
  induction As with
  | nil => intro _; simp [nsum]
  | cons A As ih =>
    intro h
    simp only [List.map, List.sum_cons]
    exact mem_sumset.mpr ⟨c A, h A (List.mem_cons_self), (As.map c).sum,
      ih (fun B hB => h B (List.mem_cons_of_mem _ hB)), rfl⟩

/-- non-emptiness is preserved -/
theorem sumset_nonempty {A B : Finset ℕ} (hA : A.Nonempty) (hB : B.Nonempty) : (sumset A B).Nonempty := by
  obtain ⟨a, ha⟩ := hA
  obtain ⟨b, hb⟩ := hB
  exact ⟨a + b, mem_sumset.mpr ⟨a, ha, b, hb, rfl⟩⟩

theorem nsum_nonempty : ∀ As : List (Finset ℕ), (∀ A ∈ As, A.Nonempty) → (nsum As).Nonempty := by
  intro As
  induction As with
  | nil => intro _; exact ⟨0, by simp [nsum]⟩
  | cons A As ih =>
    intro h
    exact sumset_nonempty (h A (List.mem_cons_self)) (ih (fun B hB => h B (List.mem_cons_of_mem _ hB)))

theorem kfold_nonempty {A : Finset ℕ} (hA : A.Nonempty) : ∀ k, (kfold A k).Nonempty := by
  intro k
  induction k with
  | zero => exact ⟨0, by simp [kfold]⟩
  | succ k ih => exact sumset_nonempty ih hA

theorem rangefold_nonempty (A : Finset ℕ) (K : ℕ) : (rangefold A K).Nonempty := by
  refine ⟨0, ?_⟩
  simp only [rangefold, mem_biUnion, mem_range]
  exact ⟨0, Nat.succ_pos K, by simp [kfold]⟩

/-- the n-ary sum depends only on the operand list: pointwise equal lists give equal sums (congruence) -/
theorem nsum_congr (As Bs : List (Finset ℕ)) (h : As = Bs) : nsum As = nsum Bs := by rw [h]

end Pydsdl

#print axioms Pydsdl.nsum_bounds
#print axioms Pydsdl.nsum_mem_sum

namespace Pydsdl
def modset (X : Finset ℕ) (d : ℕ) : Finset ℕ := X.image (fun x => x % d)

theorem modset_idem (A : Finset ℕ) (d : ℕ) : modset (modset A d) d = modset A d := by
  unfold modset
  rw [Finset.image_image]
  congr 1
  funext x
  simp [Function.comp, Nat.mod_mod]
end Pydsdl

namespace Pydsdl
theorem sumset_zero_right (A : Finset ℕ) : sumset A {0} = A := by
  ext y
  rw [mem_sumset]
  constructor
  · rintro ⟨a, ha, b, hb, rfl⟩
    rw [Finset.mem_singleton] at hb
    subst hb
    simpa using ha
  · intro hy
    exact ⟨y, hy, 0, Finset.mem_singleton_self 0, by simp⟩

theorem nsum_single (A : Finset ℕ) : nsum [A] = A := by
  simp only [nsum]
  exact sumset_zero_right A

theorem nsum_pair (A B : Finset ℕ) : nsum [A, B] = sumset A B := by
  simp only [nsum]
  rw [sumset_zero_right]
end Pydsdl

namespace Pydsdl
def aligned (A : Finset ℕ) (a : ℕ) : Prop := ∀ x ∈ A, a ∣ x

theorem sumset_zero_left (A : Finset ℕ) : sumset {0} A = A := by
  ext y
  rw [mem_sumset]
  constructor
  · rintro ⟨a, ha, b, hb, rfl⟩
    rw [Finset.mem_singleton] at ha
    subst ha
    simpa using hb
  · intro hy
    exact ⟨0, Finset.mem_singleton_self 0, y, hy, by simp⟩

/-- k copies of a fixed-length element: exactly one length, k * a -/
theorem kfold_singleton (a : ℕ) : ∀ k, kfold {a} k = {k * a} := by
  intro k
  induction k with
  | zero => simp [kfold]
  | succ k ih =>
    simp only [kfold]
    rw [ih]
    ext y
    rw [mem_sumset]
    constructor
    · rintro ⟨x, hx, z, hz, rfl⟩
      rw [Finset.mem_singleton] at hx hz
      subst hx; subst hz
      rw [Finset.mem_singleton, Nat.succ_mul]
    · intro hy
      rw [Finset.mem_singleton] at hy
      exact ⟨k * a, Finset.mem_singleton_self _, a, Finset.mem_singleton_self _, by rw [hy, Nat.succ_mul]⟩

/-- at most K copies of a fixed-length element: the multiples 0, a, ..., K * a -/
theorem mem_rangefold_singleton (a K y : ℕ) : y ∈ rangefold {a} K ↔ ∃ j, j ≤ K ∧ y = j * a := by
  simp only [rangefold, mem_biUnion, mem_range]
  constructor
  · rintro ⟨k, hk, hy⟩
    rw [kfold_singleton, Finset.mem_singleton] at hy
    exact ⟨k, by omega, hy⟩
  · rintro ⟨j, hj, rfl⟩
    exact ⟨j, by omega, by rw [kfold_singleton]; exact Finset.mem_singleton_self _⟩

theorem aligned_singleton {w a : ℕ} (h : a ∣ w) : aligned {w} a := by
  intro x hx
  rw [Finset.mem_singleton] at hx
  subst hx
  exact h

theorem aligned_of_dvd {A : Finset ℕ} {a b : ℕ} (hab : a ∣ b) (hA : aligned A b) : aligned A a :=
  fun x hx => Nat.dvd_trans hab (hA x hx)

theorem aligned_union {A B : Finset ℕ} {a : ℕ} (hA : aligned A a) (hB : aligned B a) : aligned (A ∪ B) a := by
  intro x hx
  rcases Finset.mem_union.mp hx with h | h
  · exact hA x h
  · exact hB x h
end Pydsdl
