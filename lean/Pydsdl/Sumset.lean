import Mathlib.Data.Finset.Card
import Mathlib.Order.Monotone.Basic
import Mathlib.Data.Finset.Prod
import Mathlib.Data.Finset.Image
import Mathlib.Data.Nat.ModEq
import Mathlib.Tactic.Ring
import Mathlib.Tactic.Linarith

open Finset

namespace Pydsdl

/-- A monotone-by-iteration sequence of finsets with bounded cardinality stabilises within `d - 1` steps. -/
theorem stabilise {α : Type*} [DecidableEq α] (F : Finset α → Finset α) (hF : Monotone F)
    (U : ℕ → Finset α) (hU : ∀ n, U (n + 1) = F (U n)) (h01 : U 0 ⊆ U 1)
    (h0 : (U 0).Nonempty) (d : ℕ) (hd : ∀ n, (U n).card ≤ d) :
    ∀ K, d - 1 ≤ K → U K = U (d - 1) := by
  -- monotone chain
  have hmono : ∀ n, U n ⊆ U (n + 1) := by
    intro n
    induction n with
    | zero => exact h01
    | succ n ih =>
      have h1 := hU (n + 1)
      have h2 := hU n
      rw [h1, h2]
      exact hF (h2 ▸ ih)
  -- once stable, always stable
  have hstab : ∀ m, U m = U (m + 1) → ∀ j, U (m + j) = U m := by
    intro m hm j
    induction j with
    | zero => rfl
    | succ j ih =>
      have : U (m + (j + 1)) = F (U (m + j)) := by rw [← Nat.add_assoc, hU]
      rw [this, ih, ← hU m, ← hm]
  -- growth dichotomy
  have hgrow : ∀ n, (∃ m, m ≤ n ∧ U m = U (m + 1)) ∨ n + 2 ≤ (U (n + 1)).card := by
    intro n
    induction n with
    | zero =>
      by_cases h : U 0 = U 1
      · exact Or.inl ⟨0, le_refl _, h⟩
      · right
        have hss : U 0 ⊂ U 1 := ssubset_of_subset_of_ne h01 h
        have := card_lt_card hss
        have h1 : 1 ≤ (U 0).card := card_pos.mpr h0
        show 0 + 2 ≤ (U 1).card
        omega
    | succ n ih =>
      rcases ih with ⟨m, hm, he⟩ | hc
      · exact Or.inl ⟨m, Nat.le_succ_of_le hm, he⟩
      · by_cases h : U (n + 1) = U (n + 2)
        · exact Or.inl ⟨n + 1, le_refl _, h⟩
        · right
          have hss : U (n + 1) ⊂ U (n + 2) := ssubset_of_subset_of_ne (hmono (n + 1)) h
          have := card_lt_card hss
          show n + 1 + 2 ≤ (U (n + 2)).card
          omega
  intro K hK
  rcases Nat.eq_zero_or_pos d with hd0 | hdpos
  · -- d = 0 contradicts nonemptiness
    have := hd 0
    have h1 : 1 ≤ (U 0).card := card_pos.mpr h0
    omega
  · rcases hgrow (d - 1) with ⟨m, hm, he⟩ | hc
    · have e1 : U K = U m := by
        have : K = m + (K - m) := by omega
        rw [this]; exact hstab m he _
      have e2 : U (d - 1) = U m := by
        have : d - 1 = m + (d - 1 - m) := by omega
        rw [this]; exact hstab m he _
      rw [e1, e2]
    · have := hd (d - 1 + 1)
      omega

variable (d : ℕ) (A : Finset ℕ)

/-- residues of k-fold sums of elements of `A`, computed iteratively modulo `d` -/
def T : ℕ → Finset ℕ
  | 0 => {0 % d}
  | (n + 1) => ((T n) ×ˢ A).image (fun p => (p.1 + p.2) % d)

def shift (c : ℕ) (X : Finset ℕ) : Finset ℕ := X.image (fun x => (x + c) % d)

theorem T_lt (hd : 0 < d) : ∀ n, ∀ x ∈ T d A n, x < d := by
  intro n
  cases n with
  | zero => intro x hx; simp only [T, mem_singleton] at hx; subst hx; exact Nat.mod_lt _ hd
  | succ n =>
    intro x hx
    simp only [T, mem_image] at hx
    obtain ⟨p, _, rfl⟩ := hx
    exact Nat.mod_lt _ hd

theorem shift_subset {r : ℕ} (hr : r ∈ A) (n : ℕ) : shift d r (T d A n) ⊆ T d A (n + 1) := by
  intro y hy
  simp only [shift, mem_image] at hy
  obtain ⟨x, hx, rfl⟩ := hy
  simp only [T, mem_image, mem_product]
  exact ⟨(x, r), ⟨hx, hr⟩, rfl⟩

theorem shift_card (hd : 0 < d) (c : ℕ) (X : Finset ℕ) (hX : ∀ x ∈ X, x < d) :
    (shift d c X).card = X.card := by
  unfold shift
  apply card_image_of_injOn
  intro x hx y hy h
  have hx' := hX x hx
  have hy' := hX y hy
  have h1 : x + c ≡ y + c [MOD d] := h
  have h2 : x ≡ y [MOD d] := Nat.ModEq.add_right_cancel' c h1
  have := Nat.ModEq.eq_of_lt_of_lt h2 hx' hy'
  exact this

theorem T_succ_eq_biUnion (n : ℕ) : T d A (n + 1) = A.biUnion (fun r => shift d r (T d A n)) := by
  ext y
  simp only [T, shift, mem_image, mem_product, mem_biUnion, Prod.exists]
  constructor
  · rintro ⟨x, r, ⟨hx, hr⟩, rfl⟩; exact ⟨r, hr, x, hx, rfl⟩
  · rintro ⟨r, hr, x, hx, rfl⟩; exact ⟨x, r, ⟨hx, hr⟩, rfl⟩

theorem shift_comm (a b : ℕ) (X : Finset ℕ) : shift d a (shift d b X) = shift d b (shift d a X) := by
  unfold shift
  rw [image_image, image_image]
  apply image_congr
  intro x _
  simp only [Function.comp]
  rw [Nat.mod_add_mod, Nat.mod_add_mod]
  congr 1; ring

theorem shift_biUnion (c : ℕ) (f : ℕ → Finset ℕ) :
    shift d c (A.biUnion f) = A.biUnion (fun r => shift d c (f r)) := by
  unfold shift
  rw [biUnion_image]


theorem card_mono (hd : 0 < d) (hA : A.Nonempty) (n : ℕ) : (T d A n).card ≤ (T d A (n + 1)).card := by
  obtain ⟨r, hr⟩ := hA
  calc (T d A n).card = (shift d r (T d A n)).card := (shift_card d hd r _ (T_lt d A hd n)).symm
    _ ≤ (T d A (n + 1)).card := card_le_card (shift_subset d A hr n)

theorem card_le (hd : 0 < d) (n : ℕ) : (T d A n).card ≤ d := by
  have : T d A n ⊆ range d := fun x hx => mem_range.mpr (T_lt d A hd n x hx)
  simpa using card_le_card this

theorem eq_of_card (hd : 0 < d) (n : ℕ) (hc : (T d A n).card = (T d A (n + 1)).card) :
    ∀ r ∈ A, T d A (n + 1) = shift d r (T d A n) := by
  intro r hr
  symm
  apply eq_of_subset_of_card_le (shift_subset d A hr n)
  rw [shift_card d hd r _ (T_lt d A hd n)]
  exact le_of_eq hc.symm

theorem stable_step (n : ℕ) (h : ∀ r ∈ A, T d A (n + 1) = shift d r (T d A n)) :
    ∀ r ∈ A, T d A (n + 1 + 1) = shift d r (T d A (n + 1)) := by
  intro r hr
  have e : ∀ r' ∈ A, shift d r' (T d A (n + 1)) = shift d r (shift d r' (T d A n)) := by
    intro r' _
    rw [h r hr, shift_comm]
  rw [T_succ_eq_biUnion d A (n + 1), biUnion_congr rfl e, ← shift_biUnion, ← T_succ_eq_biUnion]

theorem stable_from (j : ℕ) (h : ∀ r ∈ A, T d A (j + 1) = shift d r (T d A j)) :
    ∀ m, ∀ r ∈ A, T d A (j + m + 1) = shift d r (T d A (j + m)) := by
  intro m
  induction m with
  | zero => simpa using h
  | succ m ih => exact stable_step d A (j + m) ih

theorem exists_stable (hd : 0 < d) (hA : A.Nonempty) :
    ∃ j, j ≤ d - 1 ∧ (T d A j).card = (T d A (j + 1)).card := by
  have key : ∀ n, (∃ m, m ≤ n ∧ (T d A m).card = (T d A (m + 1)).card) ∨ n + 2 ≤ (T d A (n + 1)).card := by
    intro n
    induction n with
    | zero =>
      by_cases h : (T d A 0).card = (T d A (0 + 1)).card
      · exact Or.inl ⟨0, le_refl _, h⟩
      · right
        have h1 := card_mono d A hd hA 0
        have h0 : (T d A 0).card = 1 := by simp [T]
        omega
    | succ n ih =>
      rcases ih with ⟨m, hm, he⟩ | hc
      · exact Or.inl ⟨m, Nat.le_succ_of_le hm, he⟩
      · by_cases h : (T d A (n + 1)).card = (T d A (n + 1 + 1)).card
        · exact Or.inl ⟨n + 1, le_refl _, h⟩
        · right
          have h1 := card_mono d A hd hA (n + 1)
          omega
  rcases key (d - 1) with ⟨m, hm, he⟩ | hc
  · exact ⟨m, hm, he⟩
  · have := card_le d A hd (d - 1 + 1)
    omega

theorem shift_add (a b : ℕ) (X : Finset ℕ) : shift d a (shift d b X) = shift d (b + a) X := by
  unfold shift
  rw [image_image]
  apply image_congr
  intro x _
  simp only [Function.comp]
  rw [Nat.mod_add_mod, Nat.add_assoc]

/-- once stable at `j`, `m` further steps are a shift by `m * r` -/
theorem T_add (hd : 0 < d) (j : ℕ) (r : ℕ) (hr : r ∈ A) (h : ∀ r ∈ A, T d A (j + 1) = shift d r (T d A j)) :
    ∀ m, T d A (j + m) = shift d (m * r) (T d A j) := by
  intro m
  induction m with
  | zero =>
    unfold shift
    simp only [Nat.zero_mul, Nat.add_zero]
    symm
    calc (T d A j).image (fun x => x % d) = (T d A j).image id := by
          apply image_congr
          intro x hx
          exact Nat.mod_eq_of_lt (T_lt d A hd j x hx)
      _ = T d A j := image_id
  | succ m ih =>
    have := stable_from d A j h m r hr
    rw [← Nat.add_assoc, this, ih, shift_add]
    congr 1; ring

theorem period (hd : 0 < d) (hA : A.Nonempty) : ∀ n, d - 1 ≤ n → T d A (n + d) = T d A n := by
  intro n hn
  obtain ⟨j, hj, hc⟩ := exists_stable d A hd hA
  have h := eq_of_card d A hd j hc
  obtain ⟨r, hr⟩ := hA
  obtain ⟨m, rfl⟩ : ∃ m, n = j + m := ⟨n - j, by omega⟩
  rw [Nat.add_assoc, T_add d A hd j r hr h (m + d), T_add d A hd j r hr h m]
  unfold shift
  apply image_congr
  intro x _
  show (x + (m + d) * r) % d = (x + m * r) % d
  have : x + (m + d) * r = x + m * r + d * r := by ring
  rw [this, Nat.add_mul_mod_self_left]

/-- The statement used by the SMT side: any two counts ≥ d-1 that are congruent mod d give the same residues. -/
theorem congr_counts (hd : 0 < d) (hA : A.Nonempty) (k k' : ℕ) (hk : d - 1 ≤ k) (hk' : d - 1 ≤ k')
    (hmod : k % d = k' % d) : T d A k = T d A k' := by
  -- reduce both to the representative (d - 1) + ((k - (d-1)) % d) by repeated use of `period`
  have red : ∀ q n, d - 1 ≤ n → T d A (n + q * d) = T d A n := by
    intro q
    induction q with
    | zero => intro n _; simp
    | succ q ih =>
      intro n hn
      have : n + (q + 1) * d = (n + q * d) + d := by ring
      rw [this, period d A hd hA (n + q * d) (by omega), ih n hn]
  wlog hle : k ≤ k' generalizing k k'
  · exact (this k' k hk' hk hmod.symm (by omega)).symm
  · have hdvd : d ∣ k' - k := (Nat.modEq_iff_dvd' hle).mp hmod
    obtain ⟨q, hq⟩ := hdvd
    have : k' = k + q * d := by rw [Nat.mul_comm] ; omega
    rw [this, red q k hk]

/-! ### Link to the mathematical definitions used in the contracts -/

/-- k-fold sumset `A + A + … + A` (k times); `kfold A 0 = {0}` -/
def kfold (A : Finset ℕ) : ℕ → Finset ℕ
  | 0 => {0}
  | (k + 1) => ((kfold A k) ×ˢ A).image (fun p => p.1 + p.2)

/-- elementwise residues -/
def modset (X : Finset ℕ) (d : ℕ) : Finset ℕ := X.image (fun x => x % d)

theorem modset_kfold (k : ℕ) : modset (kfold A k) d = T d A k := by
  induction k with
  | zero => simp [modset, kfold, T]
  | succ k ih =>
    ext y
    simp only [modset, kfold, T, mem_image, mem_product, Prod.exists]
    constructor
    · rintro ⟨s, ⟨x, a, ⟨hx, ha⟩, rfl⟩, rfl⟩
      refine ⟨x % d, a, ⟨?_, ha⟩, ?_⟩
      · rw [← ih]; exact mem_image.mpr ⟨x, hx, rfl⟩
      · exact Nat.mod_add_mod x d a
    · rintro ⟨x', a, ⟨hx', ha⟩, rfl⟩
      rw [← ih] at hx'
      obtain ⟨x, hx, rfl⟩ := mem_image.mp hx'
      exact ⟨x + a, ⟨x, a, ⟨hx, ha⟩, rfl⟩, (Nat.mod_add_mod x d a).symm⟩

theorem T_modset (k : ℕ) : T d (modset A d) k = T d A k := by
  induction k with
  | zero => simp [T]
  | succ k ih =>
    show ((T d (modset A d) k) ×ˢ (modset A d)).image (fun p => (p.1 + p.2) % d)
        = ((T d A k) ×ˢ A).image (fun p => (p.1 + p.2) % d)
    rw [ih]
    ext y
    simp only [modset, mem_image, mem_product, Prod.exists]
    constructor
    · rintro ⟨x, a', ⟨hx, ⟨a, ha, rfl⟩⟩, rfl⟩
      exact ⟨x, a, ⟨hx, ha⟩, (Nat.add_mod_mod x a d).symm⟩
    · rintro ⟨x, a, ⟨hx, ha⟩, rfl⟩
      exact ⟨x, a % d, ⟨hx, ⟨a, ha, rfl⟩⟩, Nat.add_mod_mod x a d⟩

/-- **L2 + L3 in the form the SMT side imports**: the residues the code computes from the child's residues with the
reduced count `k'` are the residues of the true k-fold sumset. -/
theorem repetition_modulo_correct (hd : 0 < d) (hA : A.Nonempty) (k k' : ℕ)
    (h : k' = k ∨ (d - 1 ≤ k' ∧ d - 1 ≤ k ∧ k' % d = k % d)) :
    modset (kfold (modset A d) k') d = modset (kfold A k) d := by
  rw [modset_kfold, modset_kfold, T_modset]
  rcases h with rfl | ⟨h1, h2, h3⟩
  · rfl
  · exact congr_counts d A hd hA k' k h1 h2 h3

/-! ### Range repetition (L4) -/

def rangefold (A : Finset ℕ) (K : ℕ) : Finset ℕ := (range (K + 1)).biUnion (kfold A)

/-- residues of sums of at most `K` elements of `A` -/
def U (K : ℕ) : Finset ℕ := (range (K + 1)).biUnion (T d A)

def step (X : Finset ℕ) : Finset ℕ := (X ×ˢ A).image (fun p => (p.1 + p.2) % d)

def stepF (X : Finset ℕ) : Finset ℕ := insert (0 % d) (step d A X)

theorem modset_rangefold (K : ℕ) : modset (rangefold A K) d = U d A K := by
  unfold modset rangefold U
  rw [biUnion_image]
  apply biUnion_congr rfl
  intro k _
  exact modset_kfold d A k

theorem U_modset (K : ℕ) : U d (modset A d) K = U d A K := by
  unfold U
  apply biUnion_congr rfl
  intro k _
  exact T_modset d A k

theorem step_union (X Y : Finset ℕ) : step d A (X ∪ Y) = step d A X ∪ step d A Y := by
  unfold step
  rw [union_product, image_union]

theorem step_mono : Monotone (step d A) := by
  intro X Y h
  unfold step
  exact image_subset_image (product_subset_product_left h)

theorem stepF_mono : Monotone (stepF d A) := by
  intro X Y h
  unfold stepF
  exact insert_subset_insert _ (step_mono d A h)

theorem U_succ' (K : ℕ) : U d A (K + 1) = U d A K ∪ T d A (K + 1) := by
  unfold U
  rw [range_add_one (n := K + 1), biUnion_insert, union_comm]

theorem U_succ (K : ℕ) : U d A (K + 1) = stepF d A (U d A K) := by
  induction K with
  | zero =>
    show U d A 1 = stepF d A (U d A 0)
    rw [U_succ' d A 0]
    have h0 : U d A 0 = T d A 0 := by simp [U]
    rw [h0]
    unfold stepF step
    ext y
    simp only [T, mem_union, mem_insert, mem_singleton]
  | succ K ih =>
    rw [U_succ' d A (K + 1), ih]
    conv_rhs => rw [← ih, U_succ' d A K]
    unfold stepF
    rw [step_union]
    have hT : T d A (K + 1 + 1) = step d A (T d A (K + 1)) := rfl
    rw [hT]
    exact insert_union _ _ _

theorem U_card_le (hd : 0 < d) (K : ℕ) : (U d A K).card ≤ d := by
  have : U d A K ⊆ range d := by
    intro x hx
    simp only [U, mem_biUnion] at hx
    obtain ⟨k, _, hk⟩ := hx
    exact mem_range.mpr (T_lt d A hd k x hk)
  simpa using card_le_card this

theorem U_stable (hd : 0 < d) : ∀ K, d - 1 ≤ K → U d A K = U d A (d - 1) := by
  apply stabilise (stepF d A) (stepF_mono d A) (U d A) (U_succ d A)
  · rw [U_succ' d A 0]; exact subset_union_left
  · exact ⟨0 % d, by simp [U, T]⟩
  · exact U_card_le d A hd

/-- **L2 + L4 in the form the SMT side imports** (note: no congruence condition is needed). -/
theorem range_repetition_modulo_correct (hd : 0 < d) (K K' : ℕ)
    (h : K' = K ∨ (d - 1 ≤ K' ∧ d - 1 ≤ K)) :
    modset (rangefold (modset A d) K') d = modset (rangefold A K) d := by
  rw [modset_rangefold, modset_rangefold, U_modset]
  rcases h with rfl | ⟨h1, h2⟩
  · rfl
  · rw [U_stable d A hd K' h1, U_stable d A hd K h2]

end Pydsdl

#print axioms Pydsdl.repetition_modulo_correct
#print axioms Pydsdl.range_repetition_modulo_correct
