import Mathlib.Data.Finset.Card
import Mathlib.Data.Finset.Prod
import Mathlib.Data.Finset.Image
import Mathlib.Data.Nat.ModEq
import Mathlib.Tactic.Ring
import Mathlib.Tactic.Linarith

open Finset

namespace Pydsdl

def pad (r x : ℕ) : ℕ := (x + r - 1) / r * r
def modset (X : Finset ℕ) (d : ℕ) : Finset ℕ := X.image (fun x => x % d)
def sumset (A B : Finset ℕ) : Finset ℕ := (A ×ˢ B).image (fun p => p.1 + p.2)
def padset (A : Finset ℕ) (r : ℕ) : Finset ℕ := A.image (pad r)
def kfold (A : Finset ℕ) : ℕ → Finset ℕ
  | 0 => {0}
  | (k + 1) => sumset (kfold A k) A
def rangefold (A : Finset ℕ) (K : ℕ) : Finset ℕ := (range (K + 1)).biUnion (kfold A)
def nsum : List (Finset ℕ) → Finset ℕ
  | [] => {0}
  | (A :: As) => sumset A (nsum As)
def aligned (A : Finset ℕ) (a : ℕ) : Prop := ∀ x ∈ A, a ∣ x

theorem mem_sumset {A B : Finset ℕ} {y : ℕ} : y ∈ sumset A B ↔ ∃ a ∈ A, ∃ b ∈ B, y = a + b := by
  simp only [sumset, mem_image, mem_product, Prod.exists]
  constructor
  · rintro ⟨a, b, ⟨ha, hb⟩, rfl⟩; exact ⟨a, ha, b, hb, rfl⟩
  · rintro ⟨a, ha, b, hb, rfl⟩; exact ⟨a, b, ⟨ha, hb⟩, rfl⟩

/-! ### pad -/
theorem pad_dvd (r x : ℕ) : r ∣ pad r x := Dvd.intro_left _ rfl

theorem le_pad (r x : ℕ) (hr : 0 < r) : x ≤ pad r x := by
  unfold pad
  have h := Nat.div_add_mod (x + r - 1) r
  have h2 := Nat.mod_lt (x + r - 1) hr
  have h3 : r * ((x + r - 1) / r) = (x + r - 1) / r * r := Nat.mul_comm _ _
  omega

theorem pad_lt (r x : ℕ) (hr : 0 < r) : pad r x < x + r := by
  unfold pad
  have h := Nat.div_mul_le_self (x + r - 1) r
  omega

theorem pad_mono (r : ℕ) {x y : ℕ} (h : x ≤ y) : pad r x ≤ pad r y := by
  unfold pad
  exact Nat.mul_le_mul_right r (Nat.div_le_div_right (by omega))

theorem pad_of_dvd (r x : ℕ) (hr : 0 < r) (h : r ∣ x) : pad r x = x := by
  obtain ⟨q, rfl⟩ := h
  unfold pad
  have : r * q + r - 1 = (r - 1) + r * q := by omega
  rw [this, Nat.add_mul_div_left _ _ hr, Nat.div_eq_of_lt (by omega)]
  ring

theorem pad_add_multiple (r x h : ℕ) (hr : 0 < r) (hh : r ∣ h) : pad r (x + h) = pad r x + h := by
  obtain ⟨q, rfl⟩ := hh
  unfold pad
  have : x + r * q + r - 1 = (x + r - 1) + r * q := by omega
  rw [this, Nat.add_mul_div_left _ _ hr, Nat.add_mul]
  ring

/-! ### residues of sums (L1) -/
theorem modset_sumset (A B : Finset ℕ) (d : ℕ) :
    modset (sumset (modset A d) (modset B d)) d = modset (sumset A B) d := by
  ext y
  simp only [modset, mem_image, mem_sumset]
  constructor
  · rintro ⟨s, ⟨a', ⟨a, ha, rfl⟩, b', ⟨b, hb, rfl⟩, rfl⟩, rfl⟩
    exact ⟨a + b, ⟨a, ha, b, hb, rfl⟩, (Nat.add_mod a b d)⟩
  · rintro ⟨s, ⟨a, ha, b, hb, rfl⟩, rfl⟩
    exact ⟨a % d + b % d, ⟨a % d, ⟨a, ha, rfl⟩, b % d, ⟨b, hb, rfl⟩, rfl⟩, (Nat.add_mod a b d).symm⟩

theorem modset_sumset_left (A B : Finset ℕ) (d : ℕ) :
    modset (sumset (modset A d) B) d = modset (sumset A B) d := by
  ext y
  simp only [modset, mem_image, mem_sumset]
  constructor
  · rintro ⟨s, ⟨a', ⟨a, ha, rfl⟩, b, hb, rfl⟩, rfl⟩
    exact ⟨a + b, ⟨a, ha, b, hb, rfl⟩, (Nat.mod_add_mod a d b).symm⟩
  · rintro ⟨s, ⟨a, ha, b, hb, rfl⟩, rfl⟩
    exact ⟨a % d + b, ⟨a % d, ⟨a, ha, rfl⟩, b, hb, rfl⟩, Nat.mod_add_mod a d b⟩

theorem modset_sumset_right (A B : Finset ℕ) (d : ℕ) :
    modset (sumset A (modset B d)) d = modset (sumset A B) d := by
  ext y
  simp only [modset, mem_image, mem_sumset]
  constructor
  · rintro ⟨s, ⟨a, ha, b', ⟨b, hb, rfl⟩, rfl⟩, rfl⟩
    exact ⟨a + b, ⟨a, ha, b, hb, rfl⟩, (Nat.add_mod_mod a b d).symm⟩
  · rintro ⟨s, ⟨a, ha, b, hb, rfl⟩, rfl⟩
    exact ⟨a + b % d, ⟨a, ha, b % d, ⟨b, hb, rfl⟩, rfl⟩, Nat.add_mod_mod a b d⟩

/-- L1, n-ary: the residues of a concatenation are determined by the residues of the parts. -/
theorem modset_nsum (As : List (Finset ℕ)) (d : ℕ) :
    modset (nsum (As.map (fun A => modset A d))) d = modset (nsum As) d := by
  induction As with
  | nil => rfl
  | cons A As ih =>
    simp only [List.map, nsum]
    rw [← modset_sumset_right (modset A d), ih, modset_sumset_right, modset_sumset_left]

/-! ### alignment closure -/
theorem aligned_sumset {A B : Finset ℕ} {a : ℕ} (hA : aligned A a) (hB : aligned B a) : aligned (sumset A B) a := by
  intro y hy
  obtain ⟨x, hx, z, hz, rfl⟩ := mem_sumset.mp hy
  exact Nat.dvd_add (hA x hx) (hB z hz)

theorem aligned_kfold {A : Finset ℕ} {a : ℕ} (hA : aligned A a) : ∀ k, aligned (kfold A k) a := by
  intro k
  induction k with
  | zero => intro y hy; simp [kfold] at hy; subst hy; exact Nat.dvd_zero a
  | succ k ih => exact aligned_sumset ih hA

theorem aligned_rangefold {A : Finset ℕ} {a : ℕ} (hA : aligned A a) (K : ℕ) : aligned (rangefold A K) a := by
  intro y hy
  simp only [rangefold, mem_biUnion] at hy
  obtain ⟨k, _, hk⟩ := hy
  exact aligned_kfold hA k y hk

theorem aligned_padset (A : Finset ℕ) (r : ℕ) : aligned (padset A r) r := by
  intro y hy
  simp only [padset, mem_image] at hy
  obtain ⟨x, _, rfl⟩ := hy
  exact pad_dvd r x

theorem padset_of_aligned {A : Finset ℕ} {r : ℕ} (hr : 0 < r) (hA : aligned A r) : padset A r = A := by
  unfold padset
  calc A.image (pad r) = A.image id := image_congr (fun x hx => pad_of_dvd r x hr (hA x hx))
    _ = A := image_id

/-! ### bounds of k-fold sums (L6) -/
theorem kfold_bounds {A : Finset ℕ} {lo hi : ℕ} (hlo : ∀ x ∈ A, lo ≤ x) (hhi : ∀ x ∈ A, x ≤ hi) :
    ∀ k, ∀ y ∈ kfold A k, k * lo ≤ y ∧ y ≤ k * hi := by
  intro k
  induction k with
  | zero => intro y hy; simp [kfold] at hy; subst hy; simp
  | succ k ih =>
    intro y hy
    obtain ⟨s, hs, x, hx, rfl⟩ := mem_sumset.mp hy
    have := ih s hs
    have h1 := hlo x hx
    have h2 := hhi x hx
    constructor
    · rw [Nat.succ_mul]; omega
    · rw [Nat.succ_mul]; omega

theorem kfold_mem_mul {A : Finset ℕ} {x : ℕ} (hx : x ∈ A) : ∀ k, k * x ∈ kfold A k := by
  intro k
  induction k with
  | zero => simp [kfold]
  | succ k ih => rw [Nat.succ_mul]; exact mem_sumset.mpr ⟨k * x, ih, x, hx, rfl⟩

theorem zero_mem_rangefold (A : Finset ℕ) (K : ℕ) : 0 ∈ rangefold A K := by
  simp only [rangefold, mem_biUnion, mem_range]
  exact ⟨0, Nat.succ_pos K, by simp [kfold]⟩

theorem rangefold_le {A : Finset ℕ} {hi : ℕ} (hhi : ∀ x ∈ A, x ≤ hi) (K : ℕ) : ∀ y ∈ rangefold A K, y ≤ K * hi := by
  intro y hy
  simp only [rangefold, mem_biUnion, mem_range] at hy
  obtain ⟨k, hk, hy⟩ := hy
  have := (kfold_bounds (lo := 0) (fun _ _ => Nat.zero_le _) hhi k y hy).2
  calc y ≤ k * hi := this
    _ ≤ K * hi := Nat.mul_le_mul_right hi (by omega)

theorem max_mem_rangefold {A : Finset ℕ} {x : ℕ} (hx : x ∈ A) (K : ℕ) : K * x ∈ rangefold A K := by
  simp only [rangefold, mem_biUnion, mem_range]
  exact ⟨K, Nat.lt_succ_self K, kfold_mem_mul hx K⟩

end Pydsdl
