import Mathlib.Data.Nat.ModEq
import Mathlib.Tactic.Ring
import Mathlib.Tactic.Linarith

namespace Pydsdl

def pad (r x : ℕ) : ℕ := (x + r - 1) / r * r

theorem pad_add_mul (r : ℕ) (hr : 0 < r) (x a q : ℕ) : pad r (x + r * a * q) = pad r x + r * a * q := by
  unfold pad
  have h1 : x + r * a * q + r - 1 = (x + r - 1) + r * (a * q) := by
    have : 1 ≤ x + r := by omega
    rw [Nat.mul_assoc]; omega
  rw [h1, Nat.add_mul_div_left _ _ hr, Nat.add_mul]
  ring

/-- L5: padding commutes with reduction modulo any common multiple of the alignment and the divisor. -/
theorem pad_mod (r d L x : ℕ) (hr : 0 < r) (hrL : r ∣ L) (hdL : d ∣ L) :
    pad r (x % L) % d = pad r x % d := by
  obtain ⟨a, rfl⟩ := hrL
  have hx : x = x % (r * a) + r * a * (x / (r * a)) := (Nat.mod_add_div x (r * a)).symm
  conv_rhs => rw [hx]
  rw [pad_add_mul r hr]
  obtain ⟨b, hb⟩ := hdL
  rw [hb, Nat.mul_assoc, Nat.add_mul_mod_self_left]

end Pydsdl
